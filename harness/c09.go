package main

// C09: block signatures and anchor. Real cores gossiping (G2, with joins and
// leaves so that validator sets differ per round); adversarial signature pools
// injected into members; every ProcessSigPool run is compared with the Lean
// model; after every step the oracle re-verifies every recorded signature with
// the real Verify against the node's own body and set, checks the anchor and
// what the node signed.

import (
	"fmt"
	"math/rand"
	"sort"
	"strings"

	"github.com/mosaicnetworks/babble/src/crypto/keys"
	hg "github.com/mosaicnetworks/babble/src/hashgraph"
)

func init() { runners["C09"] = runC09 }

func (cl *cluster) memberIndexOfHex(hex string) int {
	for _, m := range cl.members {
		if m.hex == hex {
			return m.idx
		}
	}
	return -1
}

// spState renders the part of a member's state the model works on.
func spState(cl *cluster, m *member, strangers map[string]int) (peers, blocks, anchor, pool string, skip bool) {
	h := m.core.Hashgraph()
	st := h.Store
	idOf := func(hex string) int {
		if i := cl.memberIndexOfHex(hex); i >= 0 {
			return i
		}
		if i, ok := strangers[hex]; ok {
			return i
		}
		return -1
	}
	ps := map[int]bool{}
	bl := []string{}
	for i := 0; i <= st.LastBlockIndex(); i++ {
		b, err := st.GetBlock(i)
		if err != nil {
			continue
		}
		sigs := []int{}
		for k := range b.Signatures {
			sigs = append(sigs, idOf(k))
		}
		sort.Ints(sigs)
		ss := []string{}
		for _, s := range sigs {
			ss = append(ss, fmt.Sprint(s))
		}
		bl = append(bl, fmt.Sprintf("%d/%d:%s", b.Index(), b.RoundReceived(), strings.Join(ss, ".")))
		ps[b.RoundReceived()] = true
	}
	rs := []int{}
	for r := range ps {
		rs = append(rs, r)
	}
	sort.Ints(rs)
	pl := []string{}
	for _, r := range rs {
		set, err := st.GetPeerSet(r)
		if err != nil {
			skip = true
			continue
		}
		ids := []string{}
		for _, p := range set.Peers {
			ids = append(ids, fmt.Sprint(idOf(p.PubKeyString())))
		}
		pl = append(pl, fmt.Sprintf("%d:%s", r, strings.Join(ids, ".")))
	}
	an := "-"
	if h.AnchorBlock != nil {
		an = fmt.Sprint(*h.AnchorBlock)
	}
	items := []string{}
	keysS := []string{}
	pm := h.PendingSignatures.Items()
	for k := range pm {
		keysS = append(keysS, k)
	}
	sort.Strings(keysS)
	for _, k := range keysS {
		bs := pm[k]
		wf, valid := false, false
		if _, _, err := keys.DecodeSignature(bs.Signature); err == nil {
			wf = true
		}
		if b, err := st.GetBlock(bs.Index); err == nil && wf {
			ok, err := b.Verify(bs)
			valid = ok && err == nil
		}
		items = append(items, fmt.Sprintf("%d:%d:%d:%d", idOf(bs.ValidatorHex()), bs.Index, boolInt(wf), boolInt(valid)))
	}
	return "peers=" + listOrDashSep(pl, ";"), "blocks=" + listOrDashSep(bl, ";"), "anchor=" + an, "pool=" + listOrDash(items), skip
}

func listOrDashSep(l []string, sep string) string {
	if len(l) == 0 {
		return "-"
	}
	return strings.Join(l, sep)
}

func spObs(cl *cluster, m *member, strangers map[string]int) string {
	_, blocks, anchor, _, _ := spState(cl, m, strangers)
	h := m.core.Hashgraph()
	rest := []string{}
	for _, bs := range h.PendingSignatures.Items() {
		id := cl.memberIndexOfHex(bs.ValidatorHex())
		if id < 0 {
			if i, ok := strangers[bs.ValidatorHex()]; ok {
				id = i
			}
		}
		rest = append(rest, fmt.Sprintf("%d:%d", id, bs.Index))
	}
	sort.Strings(rest)
	return fmt.Sprintf("O %s %s pool=%s", anchor, blocks, listOrDash(rest))
}

// sigOracle: every recorded signature verifies against the node's own body and belongs to the round's set;
// the anchor is well signed; own signature only on delivered blocks.
func sigOracle(r *Result, cl *cluster, m *member, lastAnchor map[int]int) {
	h := m.core.Hashgraph()
	st := h.Store
	for i := 0; i <= st.LastBlockIndex(); i++ {
		b, err := st.GetBlock(i)
		if err != nil {
			continue
		}
		set, err := st.GetPeerSet(b.RoundReceived())
		if err != nil {
			continue
		}
		valid := 0
		for _, s := range b.GetSignatures() {
			if _, ok := set.ByPubKey[s.ValidatorHex()]; !ok {
				r.Violate("impl-violation", fmt.Sprintf("node %d block %d: recorded signature of %s who is not a validator of round %d", m.idx, i, s.ValidatorHex()[:12], b.RoundReceived()), "sig-non-member", nil)
				continue
			}
			ok, err := b.Verify(s)
			if err != nil || !ok {
				r.Violate("impl-violation", fmt.Sprintf("node %d block %d: recorded signature of validator %d does not verify against the node's own body", m.idx, i, cl.memberIndexOfHex(s.ValidatorHex())), "sig-invalid", nil)
				continue
			}
			valid++
		}
		if own, ok := b.Signatures[m.hex]; ok && own != "" {
			delivered := false
			for _, d := range m.app.delivered {
				if d.Index() == b.Index() {
					delivered = true
				}
			}
			if !delivered {
				r.Violate("impl-violation", fmt.Sprintf("node %d signed block %d which it never delivered to its application", m.idx, i), "signed-undelivered", nil)
			}
		}
		if h.AnchorBlock != nil && *h.AnchorBlock == i {
			n := set.Len()
			if !(3*valid > n || (n == 1 && valid >= 1)) {
				r.Violate("impl-violation", fmt.Sprintf("node %d: anchor block %d carries %d valid distinct signatures for %d validators", m.idx, i, valid, n), "anchor-undersigned", nil)
			}
			r.Inc("anchor_checks", 1)
		}
	}
	if h.AnchorBlock != nil {
		if prev, ok := lastAnchor[m.idx]; ok && *h.AnchorBlock < prev {
			r.Violate("impl-violation", fmt.Sprintf("node %d: anchor moved backwards from %d to %d", m.idx, prev, *h.AnchorBlock), "anchor-backwards", nil)
		}
		lastAnchor[m.idx] = *h.AnchorBlock
	}
}

// c09Growth: a network that starts with a single validator and grows by successive joins: the
// anchor must at every moment carry valid signatures of more than a third of the validators of
// its round, whatever thresholds were computed for the smaller sets before.
func c09Growth(r *Result, rng *rand.Rand) {
	cl := newCluster(rng, 1, 10000, nil)
	defer cl.close()
	lastAnchor := map[int]int{}
	m0 := cl.members[0]
	step := func() {
		act := cl.activeMembers()
		if len(act) == 1 {
			cl.submit(m0, cl.newTx())
			guarded(func() error { return m0.core.AddSelfEvent("") })
			guarded(func() error { return m0.core.ProcessSigPool() })
		} else {
			a, b := act[rng.Intn(len(act))], act[rng.Intn(len(act))]
			if a != b {
				if rng.Intn(2) == 0 {
					cl.submit(a, cl.newTx())
				}
				cl.pull(a, b, -1)
			}
		}
		cl.activateJoiners()
		for _, m := range cl.activeMembers() {
			sigOracle(r, cl, m, lastAnchor)
		}
	}
	for k := 0; k < 12; k++ {
		step()
	}
	for j := 0; j < 2+rng.Intn(2); j++ {
		cl.startJoin(m0)
		for k := 0; k < 150; k++ {
			step()
		}
	}
	r.Inc("growth_runs_from_a_single_validator", 1)
	r.Inc("growth_run_final_validators", len(cl.activeMembers()))
}

func runC09(r *Result, thorough bool) {
	defer func() {
		rng := rand.New(rand.NewSource(r.Seed + 99))
		k := 1
		if thorough {
			k = 5
		}
		for i := 0; i < k; i++ {
			c09Growth(r, rng)
		}
	}()
	r.Rule = "G2 runs of real cores (3-5 validators, joins and leaves) with adversarial signature pools injected into members: signatures over other bodies, by non-validators (strangers, not-yet-effective joiners, removed validators), duplicates, unknown / future / negative block indexes, malformed encodings, and sweeps in which the joiner and the leaver sign every block a node holds; " +
		"every ProcessSigPool run vs the Lean model (recorded signer sets per block, anchor, remaining pool); oracle after every step: each recorded signature re-verified with the real Verify against the node's own body and round set, anchor > n/3 valid distinct signers and monotone, own signature only on delivered blocks. non-trivial: a run where >=1 signature was recorded and >=1 refused"
	rng := rand.New(rand.NewSource(r.Seed))
	runs := 4
	if thorough {
		runs = 30
	}
	c := &Case{ID: "sigpool"}
	for ri := 0; ri < runs; ri++ {
		n := 3 + rng.Intn(3)
		cl := newCluster(rng, n, 10000, nil)
		cl.spellJoins = true
		strangerP := newParticipants(rng, 2)
		strangers := map[string]int{strangerP[0].hex: 900, strangerP[1].hex: 901}
		lastAnchor := map[int]int{}
		steps := 320 + rng.Intn(150)
		var joiner *member
		leaveDone := false
		for s := 0; s < steps; s++ {
			act := cl.activeMembers()
			a, b := act[rng.Intn(len(act))], act[rng.Intn(len(act))]
			if a == b {
				continue
			}
			if rng.Intn(3) == 0 {
				cl.submit(a, cl.newTx())
			}
			if joiner == nil && s >= steps/6 {
				joiner = cl.startJoin(a)
			}
			if !leaveDone && s >= steps/3 && n >= 4 {
				cl.startLeave(cl.members[n-1])
				leaveDone = true
			}
			// sweep: a member whose membership changes (the joiner, the leaver) signs EVERY block the
			// node holds — those of rounds in which it is a validator and those in which it is not,
			// in particular the first blocks around the effective round of the change
			if (joiner != nil || leaveDone) && rng.Intn(12) == 0 {
				hgb := b.core.Hashgraph()
				who := []*member{}
				if joiner != nil {
					who = append(who, joiner)
				}
				if leaveDone {
					who = append(who, cl.members[n-1])
				}
				for _, m := range who {
					for idx := 0; idx <= hgb.Store.LastBlockIndex(); idx++ {
						if blk, err := hgb.Store.GetBlock(idx); err == nil {
							if bs, err := blk.Sign(m.key); err == nil {
								hgb.PendingSignatures.Add(bs)
							}
						}
					}
				}
				r.Inc("membership_signature_sweeps", 1)
				guarded(func() error { return b.core.ProcessSigPool() })
				sigOracle(r, cl, b, lastAnchor)
			}
			// adversarial pool entries for b before it syncs
			if rng.Intn(6) == 0 {
				hgb := b.core.Hashgraph()
				last := hgb.Store.LastBlockIndex()
				for k := 0; k < 1+rng.Intn(4); k++ {
					idx := last
					if last >= 0 {
						idx = rng.Intn(last + 1)
					}
					var bs hg.BlockSignature
					kind := rng.Intn(8)
					signer := cl.members[rng.Intn(len(cl.members))]
					blk, err := hgb.Store.GetBlock(idx)
					switch {
					case kind == 0 || err != nil: // unknown / future / negative index
						bs = hg.BlockSignature{Validator: keys.FromPublicKey(&signer.key.PublicKey), Index: []int{last + 1 + rng.Intn(5), -1 - rng.Intn(3)}[rng.Intn(2)], Signature: "1|2"}
					case kind == 1: // stranger
						bs, _ = blk.Sign(strangerP[rng.Intn(2)].key)
					case kind == 2: // signature over another body
						other := *blk
						other.Body.Timestamp += 1
						bs, _ = other.Sign(signer.key)
					case kind == 3: // malformed encodings
						bs = hg.BlockSignature{Validator: keys.FromPublicKey(&signer.key.PublicKey), Index: idx, Signature: []string{"", "zz", "!|!", "1|", "1|2|3"}[rng.Intn(5)]}
					case kind == 4: // well formed, wrong numbers
						bs = hg.BlockSignature{Validator: keys.FromPublicKey(&signer.key.PublicKey), Index: idx, Signature: "1|2"}
					default: // valid signature of some member (maybe not a validator of that round: joiner / leaver)
						bs, _ = blk.Sign(signer.key)
					}
					hgb.PendingSignatures.Add(bs)
					r.Inc(fmt.Sprintf("injected_kind_%d", kind), 1)
				}
				// model vs code on this pool
				p1, p2, p3, p4, skip := spState(cl, b, strangers)
				before := map[int]int{}
				for i := 0; i <= hgb.Store.LastBlockIndex(); i++ {
					if blk, err := hgb.Store.GetBlock(i); err == nil {
						before[i] = len(blk.Signatures)
					}
				}
				poolBefore := hgb.PendingSignatures.Len()
				cls, det := guarded(func() error { return b.core.ProcessSigPool() })
				if cls == "panic" {
					r.violateFor("C08", "ProcessSigPool panics: "+det, "panic:ProcessSigPool", nil)
				}
				recorded := 0
				for i, nb := range before {
					if blk, err := hgb.Store.GetBlock(i); err == nil {
						recorded += len(blk.Signatures) - nb
					}
				}
				refused := poolBefore - recorded
				if !skip && cls != "panic" {
					c.Op(fmt.Sprintf("SP step %s %s %s %s", p1, p2, p3, p4), spObs(cl, b, strangers))
					r.Count(fmt.Sprintf("%s %s %s %s", p1, p2, p3, p4), recorded > 0 && refused > 0)
					r.Inc("sigpool_runs_compared", 1)
					r.Inc("signatures_recorded", recorded)
					r.Inc("signatures_refused_or_pending", refused)
				}
				sigOracle(r, cl, b, lastAnchor)
			}
			cl.pull(a, b, -1)
			cl.activateJoiners()
			sigOracle(r, cl, a, lastAnchor)
		}
		r.Inc("runs", 1)
		r.Inc("join_requests_with_a_lower_case_key", cl.joinsSpelled)
		cl.close()
	}
	if len(c.Ops) > 0 {
		r.Sample(map[string]interface{}{"op": c.Ops[len(c.Ops)/2], "go": c.Obs[len(c.Obs)/2]}, 8)
	}
	r.Compare(c)
}
