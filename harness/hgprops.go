package main

import (
	"bytes"
	"fmt"
	"math/rand"
	"os"
	"sort"
	"strings"

	"github.com/mosaicnetworks/babble/src/common"
	"github.com/mosaicnetworks/babble/src/crypto/keys"
	hg "github.com/mosaicnetworks/babble/src/hashgraph"
)

func init() {
	runners["C01"] = func(r *Result, th bool) { runHG(r, th, "C01") }
	runners["C02"] = func(r *Result, th bool) { runHG(r, th, "C02") }
	runners["C03"] = func(r *Result, th bool) { runHG(r, th, "C03") }
	runners["C04"] = func(r *Result, th bool) { runHG(r, th, "C04") }
	hgC18 = func(r *Result, th bool, rng *rand.Rand) { runHGWith(r, th, "C18", rng) }
}

// oracles of other properties whose failure also refutes the property being checked (C19: two
// nodes deciding differently means two quorums did not intersect in an honest validator)
var adoptOracles = map[string]bool{}

func (r *Result) violateFor(prop, what, key string, replay interface{}) {
	if prop == r.Property || adoptOracles[prop] {
		r.Violate("impl-violation", what, key, replay)
	} else {
		r.Inc("other_property_violations_"+prop, 1)
	}
}

// blockFaultStore: a store whose SetBlock / SetFrame fail once for chosen block indexes / rounds
// (a full disk, a transaction too big): the write did not happen, the caller sees an error.
type blockFaultStore struct {
	hg.Store
	failBlock map[int]bool
	failFrame map[int]bool
	fired     int
}

func (s *blockFaultStore) SetBlock(b *hg.Block) error {
	if s.failBlock[b.Index()] {
		delete(s.failBlock, b.Index())
		s.fired++
		return fmt.Errorf("injected store failure (SetBlock %d)", b.Index())
	}
	return s.Store.SetBlock(b)
}

func (s *blockFaultStore) SetFrame(f *hg.Frame) error {
	if s.failFrame[f.Round] {
		delete(s.failFrame, f.Round)
		s.fired++
		return fmt.Errorf("injected store failure (SetFrame %d)", f.Round)
	}
	return s.Store.SetFrame(f)
}

// addFaultNode: one more real node, not mirrored by the model, whose store refuses a few block and
// frame writes once. It receives the reference node's events in the same order; an insertion that
// returns the injected error has entered the DAG (the error comes from the consensus pass), the next
// insertion runs the passes again. The delivery oracles then apply to it like to any other node.
func addFaultNode(r *Result, sc *scenario, rng *rand.Rand) {
	ref := sc.nodes[0]
	nd := newNode(sc.d, 900, 10000, "")
	fs := &blockFaultStore{Store: nd.store, failBlock: map[int]bool{}, failFrame: map[int]bool{}}
	for j := 0; j < 3; j++ {
		fs.failBlock[1+rng.Intn(len(ref.blocks)+1)] = true
		fs.failFrame[1+rng.Intn(ref.store.LastRound()+1)] = true
	}
	nd.store = fs
	nd.h.Store = fs
	for _, g := range ref.order {
		cp := &hg.Event{Body: g.ev.Body, Signature: g.ev.Signature}
		err := nd.h.InsertEventAndRunConsensus(cp, true)
		if err != nil && !strings.Contains(err.Error(), "injected store failure") {
			r.Inc("fault_node_other_errors", 1)
			break
		}
		nd.inserted[g.name] = true
		nd.order = append(nd.order, g)
	}
	r.Inc("store_write_failures_injected", fs.fired)
	sc.nodes = append(sc.nodes, nd)
}

// buildScenario: one DAG, a reference node fed in creation order, further nodes
// with other orders / sub-DAGs / stores / cache sizes / batchings.
var failCommits = false // C02: one extra node's commit callback fails for a few blocks

func buildScenario(rng *rand.Rand, o genOpts, extraNodes int, allowBatch bool, allowBadger bool, smallCache bool) *scenario {
	d := newDag(rng, o.n0, o.extra)
	sc := &scenario{opts: o, d: d}
	c := &Case{ID: "hg " + o.String()}
	c.Op("CASE")
	genesis := []int{}
	for i := 0; i < o.n0; i++ {
		genesis = append(genesis, i)
	}
	ref := newNode(d, 0, 10000, "")
	c.Op(fmt.Sprintf("HG new 0 %s", intsOrDash(genesis)))
	sc.nodes = append(sc.nodes, ref)
	generate(rng, o, c, ref)
	for k := 1; k <= extraNodes; k++ {
		dir := ""
		if allowBadger && rng.Intn(3) == 0 {
			dir = tmpBadger(fmt.Sprint(k))
		}
		cache := 10000
		if smallCache {
			// from "comfortably above the in-flight window" up to the default
			cache = []int{2 * len(d.events), 4 * len(d.events), 1000, 10000}[rng.Intn(4)]
			if cache < 200 {
				cache = 200
			}
		}
		nd := newNode(d, k, cache, dir)
		if failCommits && k == 1 {
			// the commit callback of this node reports an error for a few blocks (after applying them)
			nd.failCommit = map[int]bool{}
			for j := 0; j < 3; j++ {
				nd.failCommit[rng.Intn(8)] = true
			}
		}
		c.Op(fmt.Sprintf("HG new %d %s", k, intsOrDash(genesis)))
		sc.nodes = append(sc.nodes, nd)
		evs := d.events
		if rng.Intn(3) == 0 {
			evs = downClosed(rng, d.events)
		}
		order := topoOrder(rng, evs)
		if rng.Intn(3) == 0 {
			order = randomDelayed(rng, evs) // creation order with a few events delivered as late as possible
		}
		var batch func(i int) bool
		if allowBatch && o.extra == 0 && (k <= 2 || rng.Intn(3) == 0) {
			mode := rng.Intn(4)
			if k == 1 {
				mode = 1 // groups of 7 between passes
			} else if k == 2 {
				mode = 3 // larger random groups
			}
			batch = func(i int) bool {
				switch mode {
				case 0:
					return false // one pass at the very end
				case 1:
					return i%7 == 6
				case 3:
					return rng.Intn(9) == 0
				default:
					return rng.Intn(4) == 0
				}
			}
		}
		feed(nd, c, order, batch)
	}
	for _, nd := range sc.nodes {
		nd.dumpAll(c)
		if !nd.batched && nd.retro == 0 {
			nd.dumpDag(c) // static and dynamic validator sets (the model takes the node's table as given for every round)
		}
	}
	// frames of the reference node (every processed round still cached)
	ref.dumpFrames(c, ref.processedRounds())
	sc.cs = []*Case{c}
	sc.canon = c.Canon()
	return sc
}

func (sc *scenario) replayPayload(extra map[string]interface{}) map[string]interface{} {
	m := map[string]interface{}{"options": sc.opts.String(), "ops": clip(sc.cs[0].Ops, 1500)}
	for k, v := range extra {
		m[k] = v
	}
	return m
}

func checkOracles(r *Result, sc *scenario) {
	d := sc.d
	memo := map[[2]int]bool{}
	// a validator set that came into force at a round some node had already created (an election that
	// lasted longer than the six rounds of the activation delay): what the nodes then compute for the
	// events of those rounds depends on when each event reached them — a recorded finding with its own key
	retroSfx := ""
	for _, nd := range sc.nodes {
		if nd.retro > 0 {
			retroSfx = ":after-retroactive-validator-set"
		}
	}
	if retroSfx != "" {
		r.Inc("scenarios_with_a_retroactive_validator_set", 1)
	}
	// ---- C02: delivery order, consecutive indexes, rr strictly increasing, store keeps body
	for _, nd := range sc.nodes {
		for i, b := range nd.blocks {
			if b.Index() != i {
				r.violateFor("C02", fmt.Sprintf("node %d delivered index %d at position %d", nd.id, b.Index(), i), "index-order", sc.replayPayload(nil))
			}
			if i > 0 && b.RoundReceived() <= nd.blocks[i-1].RoundReceived() {
				r.violateFor("C02", fmt.Sprintf("node %d: round received not strictly increasing at block %d", nd.id, i), "rr-order", sc.replayPayload(nil))
			}
			sb, err := nd.store.GetBlock(b.Index())
			if err != nil {
				if len(nd.blocks) < nd.store.CacheSize() {
					r.violateFor("C02", fmt.Sprintf("node %d: delivered block %d not readable from the store: %v", nd.id, i, err), "block-unreadable", sc.replayPayload(nil))
				}
				continue
			}
			h, _ := sb.Body.Hash()
			if string(h) != nd.commitBody[b.Index()] {
				r.violateFor("C02", fmt.Sprintf("node %d: stored block %d differs from the delivered body", nd.id, i), "block-changed", sc.replayPayload(nil))
			}
		}
	}
	// ---- C01: pairwise prefix consistency of full-history nodes
	for i := 0; i < len(sc.nodes); i++ {
		for j := i + 1; j < len(sc.nodes); j++ {
			if ok, what := prefixConsistent(sc.nodes[i], sc.nodes[j]); !ok {
				if sc.nodes[i].batched || sc.nodes[j].batched {
					// the known finding is about strongly-see / fame computed differently when the passes are
					// batched; blocks that differ although every assigned value agrees are something else
					key := "batched-frames-differ"
					if assignedValuesDiffer(sc.nodes[i], sc.nodes[j]) {
						key = "batched-passes-fame"
					}
					r.violateFor("C03", what, key, sc.replayPayload(nil))
				} else {
					r.violateFor("C01", what, "fork"+retroSfx, sc.replayPayload(nil))
				}
			}
		}
	}
	// ---- C03: values assigned to common events agree
	type vals struct{ round, lamport, rr, wit string }
	get := func(nd *hnode, g *gEvent) (vals, bool) {
		e, err := nd.store.GetEvent(g.ev.Hex())
		if err != nil {
			return vals{}, false
		}
		v := vals{fo(e.VerifRound()), fo(e.VerifLamport()), fo(e.VerifRoundReceived()), "-"}
		if e.VerifRound() != nil {
			if ri, err := nd.store.GetRound(*e.VerifRound()); err == nil {
				if re, ok := ri.VerifCreated()[g.ev.Hex()]; ok {
					v.wit = fmt.Sprint(re.Witness)
				}
			}
		}
		return v, true
	}
	ref := sc.nodes[0]
	for _, nd := range sc.nodes[1:] {
		for _, g := range nd.order {
			a, ok1 := get(ref, g)
			b, ok2 := get(nd, g)
			if !ok1 || !ok2 {
				continue
			}
			if a.round != b.round || a.lamport != b.lamport || a.wit != b.wit {
				r.violateFor("C03", fmt.Sprintf("event %s: node 0 has (round,lamport,rr,witness)=%v, node %d (batched=%v) has %v", g.name, a, nd.id, nd.batched, b), "value-differs"+retroSfx, sc.replayPayload(nil))
				break
			}
			if a.rr != "-" && b.rr != "-" && a.rr != b.rr {
				key := "rr-differs" + retroSfx
				if nd.batched {
					key = "batched-passes-fame"
				}
				r.violateFor("C03", fmt.Sprintf("event %s: node 0 has (round,lamport,rr,witness)=%v, node %d (batched=%v) has %v", g.name, a, nd.id, nd.batched, b), key, sc.replayPayload(nil))
				break
			}
		}
		// fame of commonly decided rounds
		for rd := 0; rd <= nd.store.LastRound(); rd++ {
			ra, e1 := ref.store.GetRound(rd)
			rb, e2 := nd.store.GetRound(rd)
			if e1 != nil || e2 != nil || !ra.VerifDecided() || !rb.VerifDecided() {
				continue
			}
			fa, fb := ra.FamousWitnesses(), rb.FamousWitnesses()
			sort.Strings(fa)
			sort.Strings(fb)
			if strings.Join(fa, ",") != strings.Join(fb, ",") {
				key := "fame-differs" + retroSfx
				if nd.batched {
					key = "batched-passes-fame"
				}
				r.violateFor("C03", fmt.Sprintf("round %d decided with different famous witnesses on node 0 and node %d (batched=%v)", rd, nd.id, nd.batched), key, sc.replayPayload(nil))
			}
		}
	}
	// ---- C10: only members of a round's validator set are witnesses of that round
	for _, nd := range sc.nodes {
		for rd := 0; rd <= nd.store.LastRound(); rd++ {
			ri, err := nd.store.GetRound(rd)
			if err != nil {
				continue
			}
			set, err := nd.store.GetPeerSet(rd)
			if err != nil {
				continue
			}
			for _, w := range ri.Witnesses() {
				e, err := nd.store.GetEvent(w)
				if err != nil {
					continue
				}
				if _, ok := set.ByPubKey[e.Creator()]; !ok {
					r.violateFor("C10", fmt.Sprintf("node %d: %s is a witness of round %d although its creator %d is not in the validator set of that round", nd.id, d.nameOf(w), rd, d.idx[e.Creator()]), "witness-of-non-member", sc.replayPayload(nil))
				}
				r.Inc("witness_membership_checks", 1)
			}
		}
	}
	// ---- C04: committed order extends causality; once; payload exact
	for _, nd := range sc.nodes {
		pos := map[string]int{}
		k := 0
		for _, b := range nd.blocks {
			fr, err := nd.store.GetFrame(b.RoundReceived())
			if err != nil {
				continue
			}
			want := [][]byte{}
			wantItx := 0
			for _, fe := range fr.Events {
				g := d.byHex[fe.Core.Hex()]
				if _, dup := pos[g.name]; dup {
					r.violateFor("C04", fmt.Sprintf("node %d: event %s committed twice", nd.id, g.name), "committed-twice", sc.replayPayload(nil))
				}
				pos[g.name] = k
				k++
				want = append(want, g.ev.Transactions()...)
				wantItx += len(g.ev.InternalTransactions())
				e, err := nd.store.GetEvent(g.ev.Hex())
				if err == nil && (e.VerifRoundReceived() == nil || *e.VerifRoundReceived() != b.RoundReceived()) {
					r.violateFor("C04", fmt.Sprintf("node %d: event %s in block of round %d has round received %s", nd.id, g.name, b.RoundReceived(), fo(e.VerifRoundReceived())), "rr-mismatch", sc.replayPayload(nil))
				}
			}
			got := b.Transactions()
			same := len(got) == len(want) && len(b.InternalTransactions()) == wantItx
			for i := 0; same && i < len(got); i++ {
				same = bytes.Equal(got[i], want[i])
			}
			if !same {
				r.violateFor("C04", fmt.Sprintf("node %d: block %d payload is not the concatenation of its events' payloads", nd.id, b.Index()), "payload", sc.replayPayload(nil))
			}
		}
		// every received event of a processed round is in a frame of that round (whole, once): ancestors first
		names := make([]*gEvent, 0, len(pos))
		for _, g := range nd.order {
			if _, ok := pos[g.name]; ok {
				names = append(names, g)
			}
		}
		for _, b := range names {
			for _, a := range []*gEvent{b.sp, b.op} {
				if a == nil {
					continue
				}
				pa, ok := pos[a.name]
				if !ok {
					// the parent was committed in an empty-payload round (no block) or is not committed:
					// check via round received
					ea, err1 := nd.store.GetEvent(a.ev.Hex())
					eb, err2 := nd.store.GetEvent(b.ev.Hex())
					if err1 == nil && err2 == nil && eb.VerifRoundReceived() != nil {
						if ea.VerifRoundReceived() == nil || *ea.VerifRoundReceived() > *eb.VerifRoundReceived() {
							r.violateFor("C04", fmt.Sprintf("node %d: %s (rr %s) committed although its parent %s has rr %s", nd.id, b.name, fo(eb.VerifRoundReceived()), a.name, fo(ea.VerifRoundReceived())), "parent-later", sc.replayPayload(nil))
						}
					}
					continue
				}
				if pa >= pos[b.name] {
					r.violateFor("C04", fmt.Sprintf("node %d: parent %s committed after child %s", nd.id, a.name, b.name), "causality", sc.replayPayload(nil))
				}
			}
		}
		_ = memo
	}
	// ---- C18: block timestamp = median of famous witnesses' claims, inside the honest range
	byz := map[int]bool{}
	for _, b := range sc.opts.byz {
		byz[b] = true
	}
	for _, nd := range sc.nodes {
		for bi, b := range nd.blocks {
			if nd == sc.nodes[0] && bi > 0 && b.Timestamp() < nd.blocks[bi-1].Timestamp() {
				r.Inc("blocks_with_a_timestamp_below_the_previous_block", 1)
			}
			ri, err := nd.store.GetRound(b.RoundReceived())
			if err != nil {
				continue
			}
			claims := []int64{}
			var hmin, hmax int64
			haveH := false
			nb := 0
			for _, w := range ri.FamousWitnesses() {
				g := d.byHex[w]
				claims = append(claims, g.ev.Timestamp())
				if byz[g.creator] {
					nb++
					continue
				}
				if !haveH || g.ev.Timestamp() < hmin {
					hmin = g.ev.Timestamp()
				}
				if !haveH || g.ev.Timestamp() > hmax {
					hmax = g.ev.Timestamp()
				}
				haveH = true
			}
			if b.Timestamp() != common.Median(claims) {
				r.violateFor("C18", fmt.Sprintf("node %d block %d: timestamp %d is not the median of the famous witnesses' claims %v", nd.id, b.Index(), b.Timestamp(), claims), "not-median", sc.replayPayload(nil))
			}
			ps, _ := nd.store.GetPeerSet(b.RoundReceived())
			if ps != nil && 3*len(sc.opts.byz) < ps.Len() && haveH {
				r.Inc("blocks_with_byzantine_famous", boolInt(nb > 0))
				if b.Timestamp() < hmin || b.Timestamp() > hmax {
					r.violateFor("C18", fmt.Sprintf("node %d block %d: timestamp %d outside honest famous range [%d,%d] (claims %v)", nd.id, b.Index(), b.Timestamp(), hmin, hmax, claims), "outside-honest-range", sc.replayPayload(nil))
				}
			}
		}
	}
}

// resetUsedNodes (C02, "the block after a fast-sync anchor"): nodes that already delivered
// blocks are Reset onto an anchor of the reference node — below, at and above their own
// last block — and fed the rest of the history; their deliveries must continue at
// anchor+1 without a gap, and every operation is mirrored on the model.
func resetUsedNodes(r *Result, sc *scenario, rng *rand.Rand) {
	ref := sc.nodes[0]
	if len(ref.blocks) < 3 {
		return
	}
	c := sc.cs[0]
	for t := 0; t < 2; t++ {
		k := rng.Intn(len(ref.blocks) - 1)
		pre := ref.order[:rng.Intn(len(ref.order)+1)]
		if t == 0 {
			pre = ref.order[:len(ref.order)-rng.Intn(len(ref.order)/4+1)] // a long earlier life: own last block above the anchor
		}
		nd, err := resetNodePre(sc.d, ref, 30+t, k, c, pre)
		if err != nil {
			r.Inc("resets_refused", 1)
			continue
		}
		for _, g := range sc.d.events {
			if nd.inserted[g.name] {
				continue
			}
			known := nd.store.KnownEvents()
			id := keys.PublicKeyID(g.ev.Body.Creator)
			if last, ok := known[id]; ok && g.ev.Index() <= last {
				continue
			}
			nd.run(c, g)
		}
		nd.dumpLast(c)
		r.Inc("resets_of_used_nodes", 1)
		if nd.preBlocks-1 > k {
			r.Inc("resets_below_own_last_block", 1)
		}
		r.Inc("blocks_after_reset", len(nd.blocks)-1)
		anchor := nd.blocks[0].Index()
		for i, b := range nd.blocks {
			if b.Index() != anchor+i {
				r.violateFor("C02", fmt.Sprintf("node reset onto block %d after delivering %d blocks of its own: delivery %d after the anchor has index %d, expected %d", anchor, nd.preBlocks, i, b.Index(), anchor+i),
					"index-after-reset", sc.replayPayload(map[string]interface{}{"anchor": anchor, "own_blocks_before_reset": nd.preBlocks}))
				break
			}
		}
		if last := nd.store.LastBlockIndex(); last != anchor+len(nd.blocks)-1 {
			r.violateFor("C02", fmt.Sprintf("node reset onto block %d after delivering %d blocks: store reports last block %d, delivered up to %d", anchor, nd.preBlocks, last, anchor+len(nd.blocks)-1),
				"last-block-after-reset", sc.replayPayload(map[string]interface{}{"anchor": anchor, "own_blocks_before_reset": nd.preBlocks}))
		}
		nd.close()
	}
}

func boolInt(b bool) int {
	if b {
		return 1
	}
	return 0
}

// measure: which interesting situations did the scenario reach (evidence)
func measure(r *Result, sc *scenario) (nontrivial map[string]bool) {
	nt := map[string]bool{}
	ref := sc.nodes[0]
	decided, late, empty := 0, 0, 0
	maxElection := 0
	for rd := 0; rd <= ref.store.LastRound(); rd++ {
		ri, err := ref.store.GetRound(rd)
		if err != nil {
			continue
		}
		if ri.VerifDecided() {
			decided++
			for _, v := range ri.VerifCreated() {
				if v.Witness && v.Famous == 0 {
					late++
				}
			}
			if len(ri.ReceivedEvents) == 0 {
				empty++
			}
		}
	}
	r.Inc("rounds_decided", decided)
	r.Inc("late_witnesses", late)
	r.Inc("steps_with_election_in_coin_round", sc.d.coinSteps)
	if sc.d.coinSteps > 0 {
		r.Inc("scenarios_reaching_a_coin_round", 1)
	}
	r.Inc(fmt.Sprintf("longest_election_%d_rounds", sc.d.maxElection), 1)
	r.Inc("events_into_processed_rounds", sc.d.oldRoundEvents)
	r.Inc("witnesses_into_processed_rounds", sc.d.lateWitnesses)
	r.Inc("steps_with_a_round_decided_before_an_earlier_one", sc.d.outOfOrderSteps)
	r.Inc("witnesses_into_decided_unprocessed_rounds", sc.d.witnessIntoWaitingDecided)
	r.Inc("guided_late_witness_attempts", sc.d.guidedLateWitnesses)
	r.Inc("empty_frames", empty)
	// other-parents far behind in rounds and ahead in Lamport time (a validator that talked to itself)
	maxLamport := 0
	for _, g := range sc.d.events {
		e, err := ref.store.GetEvent(g.ev.Hex())
		if err == nil && e.VerifLamport() != nil && *e.VerifLamport() > maxLamport {
			maxLamport = *e.VerifLamport()
		}
		if err != nil || e.SelfParent() == "" || e.OtherParent() == "" {
			continue
		}
		sp, err1 := ref.store.GetEvent(e.SelfParent())
		op, err2 := ref.store.GetEvent(e.OtherParent())
		if err1 != nil || err2 != nil || sp.VerifRound() == nil || op.VerifRound() == nil || sp.VerifLamport() == nil || op.VerifLamport() == nil {
			continue
		}
		if *op.VerifRound() <= *sp.VerifRound()-2 {
			r.Inc("events_with_other_parent_two_rounds_behind", 1)
			if *op.VerifLamport() >= *sp.VerifLamport() {
				r.Inc("events_with_other_parent_two_rounds_behind_and_ahead_in_lamport_time", 1)
			}
		}
	}
	r.Inc("events", len(sc.d.events))
	r.Inc(fmt.Sprintf("scenarios_with_lamport_timestamps_up_to_%d00", maxLamport/100), 1)
	if maxLamport >= 256 {
		r.Inc("scenarios_with_lamport_timestamps_above_255", 1)
	}
	r.Inc("blocks_ref", len(ref.blocks))
	r.Inc("nodes", len(sc.nodes))
	_ = maxElection
	multi := 0
	for _, nd := range sc.nodes[1:] {
		if len(nd.blocks) >= 2 {
			multi++
		}
		if nd.badger != "" {
			r.Inc("badger_nodes", 1)
		}
	}
	anc, tie := false, false
	for _, b := range ref.blocks {
		fr, err := ref.store.GetFrame(b.RoundReceived())
		if err != nil {
			continue
		}
		if len(fr.Events) >= 2 {
			anc = true
		}
		for i := 1; i < len(fr.Events); i++ {
			if fr.Events[i].LamportTimestamp == fr.Events[i-1].LamportTimestamp {
				tie = true
			}
		}
	}
	r.Inc("frames_with_lamport_ties", boolInt(tie))
	nt["C01"] = len(ref.blocks) >= 2 && multi >= 1
	nt["C02"] = len(ref.blocks) >= 3 && (empty > 0 || late > 0)
	nt["C03"] = decided >= 1 && len(sc.nodes) >= 2
	nt["C04"] = anc || tie
	byzFamous := r.Stat("blocks_with_byzantine_famous") > 0
	nt["C18"] = len(sc.opts.byz) > 0 && len(ref.blocks) > 0 && byzFamous
	return nt
}

func runHG(r *Result, thorough bool, prop string) {
	rng := rand.New(rand.NewSource(r.Seed))
	runHGWith(r, thorough, prop, rng)
}

var hgRules = map[string]string{
	"C01": "a scripted slow election and hashgraphs built by a beam search against the fame election (split votes, coin rounds, counts of exactly the supermajority, a witness that decides early and is delivered late), each on a reference node and on nodes with delayed deliveries; then G1 gossip DAGs (n=1..7, silent minority, partition+heal, lagging creator, bursts, stale other-parents, joins/leaves) inserted into several real Hashgraph nodes in different topological orders / downward-closed sub-DAGs; observations (accept/reject, delivered blocks after every insertion, round/witness/lamport/round-received/fame tables, peer sets) compared with the Lean model; oracle: pairwise prefix consistency of delivered blocks. non-trivial: >=2 nodes with different orders each delivered >=2 blocks",
	"C02": "same generators, plus a node whose commit callback fails for a few blocks after applying them and a node whose store refuses a few block / frame writes once; oracle: consecutive indexes, strictly increasing round received, stored block body = delivered body. non-trivial: >=3 blocks and an empty frame or a late witness",
	"C03": "same DAG in several topological orders, sub-DAGs, inmem/Badger stores, cache sizes, batchings of the passes (static sets); oracle: every assigned value agrees across nodes. non-trivial: >=2 nodes, >=1 decided round",
	"C04": "same generators (failing commit callbacks and failing store writes included); oracle: committed order is a linear extension of ancestry, every event once, block payload = concatenation of the events of one round received. non-trivial: a block with >=2 events or a Lamport tie",
	"C18": "hashgraph runs with lying clocks (fewer than n/3 creators claim extreme timestamps): block timestamp = common.Median of the famous witnesses' claims and lies inside the honest range. non-trivial: a block whose famous witnesses include a liar",
}

func runHGWith(r *Result, thorough bool, prop string, rng *rand.Rand) {
	if r.Rule == "" || prop != "C18" {
		r.Rule = hgRules[prop]
	}
	cases := map[string]int{"C01": 24, "C02": 14, "C03": 14, "C04": 14, "C18": 10}[prop]
	if thorough {
		cases *= 8
	}
	if prop != "C18" {
		// corpus first: the scripted slow election with every delayed delivery of one event
		max := 24
		if thorough {
			max = 200
		}
		sc := buildCorpusScenario(rng, corpusSlowElection, 4, max)
		checkOracles(r, sc)
		measure(r, sc)
		r.Count(sc.canon, true)
		r.Inc("corpus_scenarios", 1)
		r.Inc("corpus_delayed_orders", len(sc.nodes)-1)
		r.Inc("ops", len(sc.cs[0].Ops))
		for _, op := range sc.cs[0].Ops {
			if strings.HasPrefix(op, "HG dag ") {
				r.Inc("declarative_model_views_compared", 1)
			}
		}
		r.Compare(sc.cs[0])
		sc.close()
	}
	if prop != "C18" {
		// elections prolonged by an adversarial scheduler (split votes, coin rounds)
		adv := 4
		if thorough {
			adv = 24
		}
		for i := 0; i < adv; i++ {
			sc, reached := buildAdversarialScenario(rng, thorough)
			r.Inc("adversarial_orders_holding_back_a_decider", boolInt(len(sc.nodes) > 0 && sc.heldBack > 0))
			checkOracles(r, sc)
			nt := measure(r, sc)
			r.Count(sc.canon, nt[prop])
			r.Inc("adversarial_scenarios", 1)
			r.Inc("adversarial_scenarios_with_a_join_during_the_election", boolInt(sc.opts.extra > 0))
			r.Inc(fmt.Sprintf("adversarial_election_lasting_%d_rounds", reached), 1)
			r.Inc("ops", len(sc.cs[0].Ops))
			for _, op := range sc.cs[0].Ops {
				if strings.HasPrefix(op, "HG dag ") {
					r.Inc("declarative_model_views_compared", 1)
				}
			}
			r.Compare(sc.cs[0])
			sc.close()
		}
	}
	for i := 0; i < cases; i++ {
		dynamic := (prop == "C01" || prop == "C02" || prop == "C04") && i%3 == 2
		o := randomOpts(rng, thorough, dynamic)
		if prop != "C18" && !dynamic && i%6 == 1 {
			o = hermitOpts(rng, thorough)
			r.Inc("hermit_scenarios", 1)
		}
		if prop == "C04" && !dynamic && i%14 == 6 {
			// a deep history: Lamport timestamps well above 255 (multi-byte encodings, wide sort keys)
			o = genOpts{n0: 4, steps: 640 + rng.Intn(80), txRate: 3, staleOp: true}
			r.Inc("deep_scenarios", 1)
		}
		if prop == "C18" && i%2 == 0 {
			// a long, busy, well-connected run (many blocks) in which one honest clock runs fast and is
			// corrected: the median of a later round lies below an earlier block's timestamp
			o = genOpts{n0: 4 + rng.Intn(4), steps: 280 + rng.Intn(120), txRate: 2, staleOp: rng.Intn(2) == 0, byz: o.byz}
			if len(o.byz) > 0 && (o.byz[0] >= o.n0 || 3*len(o.byz) >= o.n0) {
				o.byz = nil
			}
			o.skew = true
			r.Inc("scenarios_with_an_honest_clock_corrected_backwards", 1)
		}
		if prop == "C18" && len(o.byz) == 0 {
			o.n0 = 4 + rng.Intn(4)
			o.byz = []int{rng.Intn(o.n0)}
			if o.n0 == 7 {
				o.byz = append(o.byz, (o.byz[0]+1)%7)
			}
		}
		extra := 2
		if prop == "C03" {
			extra = 4
		}
		if prop == "C18" {
			extra = 1
		}
		failCommits = prop == "C02" || prop == "C04"
		sc := buildScenario(rng, o, extra, prop == "C03", prop == "C03" || prop == "C02", prop == "C03")
		failCommits = false
		for _, nd := range sc.nodes {
			r.Inc("commit_callback_failures_injected", nd.failed)
		}
		if prop == "C02" {
			resetUsedNodes(r, sc, rng)
		}
		if (prop == "C02" || prop == "C04") && len(sc.nodes[0].blocks) >= 2 {
			addFaultNode(r, sc, rng)
		}
		checkOracles(r, sc)
		if os.Getenv("DBGLATE") != "" {
			fmt.Fprintf(os.Stderr, "DBG scenario %s events=%d lastRound=%d blocks=%d lateW=%d\n", o.String(), len(sc.d.events), sc.nodes[0].store.LastRound(), len(sc.nodes[0].blocks), sc.d.lateWitnesses)
		}
		nt := measure(r, sc)
		r.Count(sc.canon, nt[prop])
		r.Inc("scenarios", 1)
		if dynamic {
			r.Inc("scenarios_dynamic_membership", 1)
		}
		r.Inc("ops", len(sc.cs[0].Ops))
		for _, op := range sc.cs[0].Ops {
			if strings.HasPrefix(op, "HG dag ") {
				r.Inc("declarative_model_views_compared", 1)
			}
		}
		if i == 0 {
			r.Sample(map[string]interface{}{"options": o.String(), "first_ops": clip(sc.cs[0].Ops[:min(len(sc.cs[0].Ops), 40)], 40), "blocks_delivered_by_reference": len(sc.nodes[0].blocks)}, 8)
		}
		r.Compare(sc.cs[0])
		sc.close()
	}
	if prop == "C02" {
		// store level: more blocks than the cache holds, late signatures saved on old blocks
		for k := 0; k < 3; k++ {
			storeRewriteCase(r, rng, 900+k)
		}
	}
	if r.Stat("rounds_decided") == 0 {
		r.CoverageHoles = append(r.CoverageHoles, "no scenario reached a decided round")
	}
}

func min(a, b int) int {
	if a < b {
		return a
	}
	return b
}

var _ = hg.PEER_ADD
