package main

import (
	"crypto/ecdsa"
	"math/big"
	"math/rand"

	"github.com/btcsuite/btcd/btcec"
	"github.com/mosaicnetworks/babble/src/crypto/keys"
	"github.com/mosaicnetworks/babble/src/peers"
)

// detKey derives a secp256k1 key deterministically from the PRNG, so that a
// seed reproduces the same participants (signatures stay randomised by
// ecdsa.Sign; traces therefore carry the events themselves).
func detKey(rng *rand.Rand) *ecdsa.PrivateKey {
	c := btcec.S256()
	for {
		b := make([]byte, 32)
		rng.Read(b)
		d := new(big.Int).SetBytes(b)
		if d.Sign() == 0 || d.Cmp(c.Params().N) >= 0 {
			continue
		}
		priv := new(ecdsa.PrivateKey)
		priv.PublicKey.Curve = c
		priv.D = d
		priv.PublicKey.X, priv.PublicKey.Y = c.ScalarBaseMult(d.Bytes())
		return priv
	}
}

type participant struct {
	key  *ecdsa.PrivateKey
	peer *peers.Peer
	hex  string // upper-case key string as used in maps
}

func newParticipants(rng *rand.Rand, n int) []*participant {
	res := []*participant{}
	for i := 0; i < n; i++ {
		k := detKey(rng)
		p := peers.NewPeer(keys.PublicKeyHex(&k.PublicKey), "", "")
		res = append(res, &participant{key: k, peer: p, hex: p.PubKeyString()})
	}
	return res
}
