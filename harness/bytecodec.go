package main

// Byte-level correspondence for the two string encodings (model Babble.ByteCodec):
// common.EncodeToString / DecodeFromString and keys.EncodeSignature / DecodeSignature
// run on the same inputs as the Lean definitions, values compared byte for byte, plus the
// Go-side round-trip oracles. Used by C15 (encoding identity), C08 (hostile strings) and
// C12 (one key, many spellings).

import (
	"bytes"
	"encoding/hex"
	"fmt"
	"math/big"
	"math/rand"
	"strings"

	"github.com/mosaicnetworks/babble/src/common"
	"github.com/mosaicnetworks/babble/src/crypto/keys"
)

func showBytes(b []byte) string {
	if len(b) == 0 {
		return "-"
	}
	return hex.EncodeToString(b)
}

func mixCase(rng *rand.Rand, s string) string {
	b := []byte(s)
	for i := range b {
		switch rng.Intn(3) {
		case 0:
			b[i] = strings.ToLower(string(b[i]))[0]
		case 1:
			b[i] = strings.ToUpper(string(b[i]))[0]
		}
	}
	return string(b)
}

func randomBig(rng *rand.Rand) *big.Int {
	switch rng.Intn(6) {
	case 0:
		return big.NewInt(int64(rng.Intn(40)))
	case 1: // around a power of 36
		p := new(big.Int).Exp(big.NewInt(36), big.NewInt(int64(1+rng.Intn(50))), nil)
		return p.Add(p, big.NewInt(int64(rng.Intn(3)-1)))
	case 2:
		return big.NewInt(rng.Int63())
	}
	b := make([]byte, 1+rng.Intn(40))
	rng.Read(b)
	return new(big.Int).SetBytes(b)
}

func byteCodecCorrespondence(r *Result, rng *rand.Rand, thorough bool) {
	n := 400
	if thorough {
		n = 6000
	}
	pk := newParticipants(rng, 3)
	c := &Case{ID: "bytecodec"}
	for i := 0; i < n; i++ {
		// ---- hexadecimal: encode
		var raw []byte
		switch rng.Intn(5) {
		case 0:
			raw = []byte{}
		case 1:
			raw = pk[rng.Intn(len(pk))].peer.PubKeyBytes()
		case 2:
			raw = make([]byte, 32)
			rng.Read(raw)
		default:
			raw = make([]byte, rng.Intn(70))
			rng.Read(raw)
			if len(raw) > 0 && rng.Intn(2) == 0 {
				raw[rng.Intn(len(raw))] = 0
			}
		}
		enc := common.EncodeToString(raw)
		c.Op("DEC hexenc "+esc(string(raw)), "O "+enc)
		back, err := common.DecodeFromString(enc)
		if err != nil || !bytes.Equal(back, raw) {
			r.Violate("impl-violation", fmt.Sprintf("DecodeFromString(EncodeToString(%x)) = %x, %v", raw, back, err), "hex-roundtrip", map[string]interface{}{"bytes": hex.EncodeToString(raw), "encoded": enc})
		}
		r.Inc("bytecodec_hex_encodings", 1)
		// ---- hexadecimal: decode canonical and re-spelled forms
		var s string
		kind := rng.Intn(8)
		switch kind {
		case 0:
			s = enc
		case 1:
			s = strings.ToLower(enc)
		case 2:
			s = mixCase(rng, enc)
		case 3: // the first two bytes are never looked at
			b := []byte(enc)
			b[0], b[1] = byte(rng.Intn(256)), byte(rng.Intn(256))
			s = string(b)
		case 4:
			s = enc[:rng.Intn(len(enc)+1)]
		case 5:
			b := []byte(enc + "0")
			b[rng.Intn(len(b))] = byte(rng.Intn(256))
			s = string(b)
		default:
			s = hostileString(rng, enc)
		}
		out, err := common.DecodeFromString(s)
		obs := "O err"
		if err == nil {
			obs = "O ok " + showBytes(out)
			if kind >= 1 && kind <= 3 && s != enc {
				r.Inc("bytecodec_respelled_keys_decoding_to_the_same_bytes", 1)
			}
		}
		c.Op("DEC hexdec "+esc(s), obs)
		r.Inc("bytecodec_hex_decodings", 1)
		r.Inc("bytecodec_hex_decode_"+strings.Fields(obs)[1], 1)

		// ---- signatures: encode
		var R, S *big.Int
		if rng.Intn(3) == 0 {
			body := make([]byte, 32)
			rng.Read(body)
			R, S, _ = keys.Sign(pk[rng.Intn(len(pk))].key, body)
		} else {
			R, S = randomBig(rng), randomBig(rng)
		}
		se := keys.EncodeSignature(R, S)
		c.Op(fmt.Sprintf("DEC sigenc %s %s", R.String(), S.String()), "O "+se)
		r2, s2, err := keys.DecodeSignature(se)
		if err != nil || r2.Cmp(R) != 0 || s2.Cmp(S) != 0 {
			r.Violate("impl-violation", fmt.Sprintf("DecodeSignature(EncodeSignature(%s,%s)) = %v,%v,%v", R, S, r2, s2, err), "sig-roundtrip", map[string]interface{}{"r": R.String(), "s": S.String(), "encoded": se})
		}
		r.Inc("bytecodec_signature_encodings", 1)
		// ---- signatures: decode
		var ss string
		switch rng.Intn(8) {
		case 0:
			ss = se
		case 1:
			ss = strings.ToUpper(se)
		case 2:
			ss = mixCase(rng, se)
		case 3:
			ss = "0" + strings.Replace(se, "|", "|00", 1)
		case 4:
			ss = "+" + strings.Replace(se, "|", "|-", 1)
		case 5:
			b := []byte(se)
			b[rng.Intn(len(b))] = byte(rng.Intn(128))
			ss = string(b)
		case 6:
			ss = se[:rng.Intn(len(se)+1)] + []string{"", "|", "|1", "-", "+"}[rng.Intn(5)]
		default:
			ss = hostileString(rng, se)
		}
		r3, s3, err := keys.DecodeSignature(ss)
		obs = "O err"
		if err == nil && r3 != nil && s3 != nil {
			obs = fmt.Sprintf("O ok %s %s", r3.String(), s3.String())
			if ss != se && r3.Cmp(R) == 0 && s3.Cmp(S) == 0 {
				r.Inc("bytecodec_respelled_signatures_decoding_to_the_same_values", 1)
			}
		}
		c.Op("DEC sigdec "+esc(ss), obs)
		r.Inc("bytecodec_signature_decodings", 1)
		r.Inc("bytecodec_signature_decode_"+strings.Fields(obs)[1], 1)
	}
	r.Count(c.Canon(), true)
	if !r.Compare(c) {
		r.Inc("bytecodec_disagreement", 1)
	}
}
