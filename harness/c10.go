package main

// C10: the validator-set history is a replayable function of the committed
// blocks. Real cores (G2) with successive, simultaneous, refused and
// re-join-after-leave membership requests and a late joiner replaying the
// history; every member's round -> validator-set lookups are compared with the
// Lean table model and with an independent replay of its own delivered blocks.

import (
	"fmt"
	"math/rand"
	"sort"
	"strings"

	hg "github.com/mosaicnetworks/babble/src/hashgraph"
	"github.com/mosaicnetworks/babble/src/peers"
)

func init() { runners["C10"] = runC10 }

func (cl *cluster) idsOf(ps []*peers.Peer) string {
	s := []string{}
	for _, p := range ps {
		s = append(s, fmt.Sprint(cl.memberIndexOfHex(p.PubKeyString())))
	}
	return strings.Join(s, ".")
}

// goReplay: the specification recomputed in Go from a member's delivered blocks.
func goReplay(cl *cluster, m *member, r int) []int {
	set := []int{}
	for i := range cl.genesis {
		set = append(set, i)
	}
	for k, b := range m.app.delivered {
		if b.RoundReceived()+6 > r {
			continue
		}
		_ = k
		for _, it := range b.InternalTransactions() {
			if m.app.refuse[it.Body.Peer.PubKeyString()] {
				continue
			}
			id := cl.memberIndexOfHex(it.Body.Peer.PubKeyString())
			if it.Body.Type == hg.PEER_ADD {
				have := false
				for _, x := range set {
					have = have || x == id
				}
				if !have {
					set = append(set, id)
				}
			} else {
				ns := []int{}
				for _, x := range set {
					if x != id {
						ns = append(ns, x)
					}
				}
				set = ns
			}
		}
	}
	return set
}

// c10Witnesses: hashgraph-level histories with joins and leaves in which the leaver goes on
// creating events after its removal took effect: its events are no witnesses of those rounds (and the
// whole run is compared with the operational model, which decides witness-hood by the round's set)
func c10Witnesses(r *Result, rng *rand.Rand, thorough bool) {
	k := 3
	if thorough {
		k = 16
	}
	for i := 0; i < k; i++ {
		o := randomOpts(rng, thorough, true)
		o.leave = true
		if o.n0 < 4 {
			o.n0 = 4
		}
		o.steps += 150
		sc := buildScenario(rng, o, 1, false, false, false)
		checkOracles(r, sc)
		r.Inc("leave_scenarios", 1)
		r.Compare(sc.cs[0])
		sc.close()
	}
}

func runC10(r *Result, thorough bool) {
	defer func() { c10Witnesses(r, rand.New(rand.NewSource(r.Seed+5)), thorough) }()
	r.Rule = "G2 runs of real cores (3-5 genesis validators) with successive and simultaneous join requests, two requests carried by one event (two receipts in one block: accepted+accepted, accepted+refused, refused+accepted), a leave, a re-join after leave, requests refused by the application, and a late joiner that replays the whole history; " +
		"for every member and every round up to last round + 8: Store.GetPeerSet(r) vs the Lean table model (buildTable / peersAtTbl) and vs an independent Go replay of the member's own delivered blocks; block PeersHash vs the set at its round received; histories compared across members. " +
		"non-trivial: >=1 accepted change and lookups on both sides of its effective round"
	rng := rand.New(rand.NewSource(r.Seed))
	runs := 3
	if thorough {
		runs = 24
	}
	c := &Case{ID: "peersets"}
	for ri := 0; ri < runs; ri++ {
		n := 3 + rng.Intn(3)
		cl := newCluster(rng, n, 10000, nil)
		cl.spellJoins = true
		steps := 350 + rng.Intn(250)
		var joiners []*member
		refusedKeys := []string{}
		leaver := -1
		done := map[string]bool{}
		once := func(name string, at int, s int, cond bool) bool {
			if cond && s >= at && !done[name] {
				done[name] = true
				return true
			}
			return false
		}
		refusedJoin := func(host *member) {
			j := newMember(cl.rng, len(cl.members))
			j.joiner = true
			cl.mkCore(j, host.core.Peers().Peers)
			refusedKeys = append(refusedKeys, j.hex)
			for _, m := range cl.members {
				m.app.refuse[j.hex] = true
			}
			j.app.refuse[j.hex] = true
			itx := hg.NewInternalTransactionJoin(*j.peer)
			itx.Sign(j.key)
			host.core.AddInternalTransaction(itx)
			cl.members = append(cl.members, j)
		}
		for s := 0; s < steps; s++ {
			// every application (also of members created later) refuses the same requests
			for _, k := range refusedKeys {
				for _, m := range cl.members {
					m.app.refuse[k] = true
				}
			}
			act := cl.activeMembers()
			a, b := act[rng.Intn(len(act))], act[rng.Intn(len(act))]
			if a == b {
				continue
			}
			if rng.Intn(3) == 0 {
				cl.submit(a, cl.newTx())
			}
			if once("successive", steps/8, s, true) {
				joiners = append(joiners, cl.startJoin(a))
			}
			if once("simultaneous", steps/8+3, s, ri%2 == 0) { // inside the same window
				joiners = append(joiners, cl.startJoin(b))
			}
			if once("refused", steps/4, s, ri%3 == 0) { // a request every application refuses
				refusedJoin(a)
			}
			if once("pair", steps/3, s, true) {
				// two requests in ONE event of the same host, hence two receipts in one block:
				// accepted+accepted, accepted+refused, refused+accepted
				switch ri % 3 {
				case 0:
					joiners = append(joiners, cl.startJoin(a))
					joiners = append(joiners, cl.startJoin(a))
				case 1:
					joiners = append(joiners, cl.startJoin(a))
					refusedJoin(a)
				default:
					refusedJoin(a)
					joiners = append(joiners, cl.startJoin(a))
				}
				r.Inc("two_requests_in_one_event", 1)
			}
			if once("leave", steps/2, s, n >= 4) {
				leaver = n - 1
				cl.startLeave(cl.members[leaver])
			}
			rejoinAt := (3 * steps) / 4
			if ri%2 == 1 {
				rejoinAt = steps/2 + 25 + 5*(ri%4) // inside the activation window of the leave
			}
			if once("rejoin", rejoinAt, s, leaver >= 0) {
				// re-join after leave: the removed validator asks again
				lm := cl.members[leaver]
				itx := hg.NewInternalTransactionJoin(*lm.peer)
				itx.Sign(lm.key)
				a.core.AddInternalTransaction(itx)
			}
			cl.pull(a, b, -1)
			cl.activateJoiners()
		}
		// "only peers in a round's set can have block signatures accepted for it": every member that
		// ever was or became a validator signs every block a node holds; after ProcessSigPool the
		// signatures recorded on a block are exactly allowed to come from the set of its round received
		for _, host := range cl.activeMembers()[:2] {
			hgb := host.core.Hashgraph()
			for _, m := range cl.members {
				if m.core == nil {
					continue
				}
				for idx := 0; idx <= hgb.Store.LastBlockIndex(); idx++ {
					if blk, err := hgb.Store.GetBlock(idx); err == nil {
						if bs, err := blk.Sign(m.key); err == nil {
							hgb.PendingSignatures.Add(bs)
						}
					}
				}
			}
			guarded(func() error { return host.core.ProcessSigPool() })
			r.Inc("signature_sweeps", 1)
			for idx := 0; idx <= hgb.Store.LastBlockIndex(); idx++ {
				blk, err := hgb.Store.GetBlock(idx)
				if err != nil {
					continue
				}
				set, err := hgb.Store.GetPeerSet(blk.RoundReceived())
				if err != nil {
					continue
				}
				for _, m := range cl.members {
					if m.core == nil {
						continue
					}
					_, member := set.ByPubKey[m.hex]
					_, signed := blk.Signatures[m.hex]
					if signed && !member {
						r.Violate("impl-violation", fmt.Sprintf("node %d block %d (round received %d): a signature of member %d was accepted although it is not in the validator set of that round", host.idx, idx, blk.RoundReceived(), m.idx), "signature-of-non-member", nil)
					}
					if member && !signed {
						r.Violate("impl-violation", fmt.Sprintf("node %d block %d (round received %d): the signature of member %d, a validator of that round, was not accepted", host.idx, idx, blk.RoundReceived(), m.idx), "signature-of-member-refused", nil)
					}
					r.Inc("signature_membership_checks", 1)
				}
			}
		}
		// a late joiner replaying the whole history from genesis (no fast sync)
		late := newMember(cl.rng, len(cl.members))
		cl.mkCore(late, cl.genesis)
		late.core.SetAcceptedRound(1 << 30) // an observer: replays the history, never creates events
		for _, k := range refusedKeys {
			for _, m := range cl.members {
				m.app.refuse[k] = true
			}
			late.app.refuse[k] = true
		}
		cl.members = append(cl.members, late)
		src := cl.members[0]
		for k := 0; k < 40; k++ {
			if err := cl.pull(late, src, 50); err != nil {
				break
			}
		}
		accepted := 0
		for _, m := range cl.members {
			if m.core == nil || len(m.app.delivered) == 0 {
				continue
			}
			st := m.core.Hashgraph().Store
			// model input: this member's delivered blocks with their accepted internal transactions
			bl := []string{}
			for _, b := range m.app.delivered {
				its := []string{}
				for _, it := range b.InternalTransactions() {
					if m.app.refuse[it.Body.Peer.PubKeyString()] {
						continue
					}
					sign := "+"
					if it.Body.Type == hg.PEER_REMOVE {
						sign = "-"
					}
					its = append(its, sign+fmt.Sprint(cl.memberIndexOfHex(it.Body.Peer.PubKeyString())))
					accepted++
				}
				bl = append(bl, fmt.Sprintf("%d:%s", b.RoundReceived(), strings.Join(its, ".")))
			}
			gen := []string{}
			for i := range cl.genesis {
				gen = append(gen, fmt.Sprint(i))
			}
			rounds := []string{}
			outs := []string{}
			specs := []string{}
			last := st.LastRound() + 8
			for rd := 0; rd <= last; rd++ {
				ps, err := st.GetPeerSet(rd)
				if err != nil {
					continue
				}
				rounds = append(rounds, fmt.Sprint(rd))
				outs = append(outs, fmt.Sprintf("%d:%s", rd, cl.idsOf(ps.Peers)))
				want := goReplay(cl, m, rd)
				ws := []string{}
				for _, x := range want {
					ws = append(ws, fmt.Sprint(x))
				}
				specs = append(specs, fmt.Sprintf("%d:%s", rd, strings.Join(ws, ".")))
				if strings.Join(ws, ".") != cl.idsOf(ps.Peers) {
					r.Violate("impl-violation", fmt.Sprintf("node %d: validator set used for round %d is [%s], the replay of its committed blocks gives [%s]", m.idx, rd, cl.idsOf(ps.Peers), strings.Join(ws, ".")),
						"table-not-replay", map[string]interface{}{"node": m.idx, "round": rd, "blocks": bl})
					break
				}
			}
			c.Op(fmt.Sprintf("PT lookup genesis=%s blocks=%s rounds=%s", strings.Join(gen, "."), listOrDashSep(bl, ";"), listOrDash(rounds)),
				fmt.Sprintf("O %s validators=%s", strings.Join(outs, ";"), cl.idsOf(m.core.Validators().Peers)), "O spec "+strings.Join(specs, ";"))
			// block peers hash = hash of the set at its round received
			for _, b := range m.app.delivered {
				ps, err := st.GetPeerSet(b.RoundReceived())
				if err != nil {
					continue
				}
				h, _ := ps.Hash()
				if !bytesEq(h, b.PeersHash()) {
					r.Violate("impl-violation", fmt.Sprintf("node %d block %d: PeersHash is not the hash of the set effective at round %d", m.idx, b.Index(), b.RoundReceived()), "block-peershash", nil)
				}
			}
			// table entries only at round received + 6 of a delivered block with an accepted change
			all, _ := st.GetAllPeerSets()
			ers := []int{}
			for e := range all {
				ers = append(ers, e)
			}
			sort.Ints(ers)
			for _, e := range ers {
				if e == 0 {
					continue
				}
				ok := false
				for _, b := range m.app.delivered {
					if b.RoundReceived()+6 == e {
						ok = true
					}
				}
				if !ok {
					r.Violate("impl-violation", fmt.Sprintf("node %d: validator-set entry at round %d does not correspond to any delivered block's round received + 6", m.idx, e), "entry-without-block", nil)
				}
			}
		}
		// histories across members
		ref := cl.members[0]
		for _, m := range cl.members[1:] {
			if m.core == nil {
				continue
			}
			ra, _ := ref.core.Hashgraph().Store.GetAllPeerSets()
			rb, _ := m.core.Hashgraph().Store.GetAllPeerSets()
			for e, pa := range ra {
				if pb, ok := rb[e]; ok && cl.idsOf(pa) != cl.idsOf(pb) {
					r.Violate("impl-violation", fmt.Sprintf("nodes 0 and %d report different validator sets for round %d: [%s] vs [%s]", m.idx, e, cl.idsOf(pa), cl.idsOf(pb)), "history-differs", nil)
				}
			}
		}
		r.Count(fmt.Sprintf("run %d %d", ri, n), accepted > 0)
		r.Inc("accepted_changes_seen", accepted)
		r.Inc("joiners", len(joiners))
		r.Inc("late_joiner_blocks", len(late.app.delivered))
		r.Inc("runs", 1)
		cl.close()
	}
	if len(c.Ops) > 0 {
		r.Sample(map[string]interface{}{"op": c.Ops[0], "go": c.Obs[0]}, 8)
	}
	r.Compare(c)
}
