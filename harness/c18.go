package main

import (
	"fmt"
	"math"
	"math/rand"
	"sort"
	"strings"

	"github.com/mosaicnetworks/babble/src/common"
)

func init() { runners["C18"] = runC18 }

var extremes = []int64{math.MinInt64, math.MaxInt64, math.MinInt64 + 1, math.MaxInt64 - 1, -1, 0, 1, math.MinInt32, math.MaxInt32, -4611686018427387904, 4611686018427387903}

func runC18median(r *Result, thorough bool, rng *rand.Rand) {
	cases := 3000
	if thorough {
		cases = 60000
	}
	c := &Case{ID: "median"}
	for i := 0; i < cases; i++ {
		n := rng.Intn(12)
		if i%5 == 0 {
			n = rng.Intn(60) // networks with more validators than any test uses
		} else if i%50 == 1 {
			n = 100 + rng.Intn(200)
		}
		r.Inc(fmt.Sprintf("median_lists_longer_than_16_%v", n > 16), 1)
		honestLo := rng.Int63n(1<<40) - (1 << 39)
		if rng.Intn(4) == 0 {
			honestLo = -honestLo
		}
		width := rng.Int63n(1000) + 1
		nb := 0
		if n > 0 {
			nb = rng.Intn((n + 1) / 2) // 2*nb < n
			if 2*nb >= n {
				nb = 0
			}
		}
		vals := []int64{}
		hmin, hmax := int64(math.MaxInt64), int64(math.MinInt64)
		for k := 0; k < n-nb; k++ {
			v := honestLo + rng.Int63n(width)
			vals = append(vals, v)
			if v < hmin {
				hmin = v
			}
			if v > hmax {
				hmax = v
			}
		}
		for k := 0; k < nb; k++ {
			if rng.Intn(2) == 0 {
				vals = append(vals, extremes[rng.Intn(len(extremes))])
			} else {
				vals = append(vals, int64(rng.Uint64()))
			}
		}
		rng.Shuffle(len(vals), func(a, b int) { vals[a], vals[b] = vals[b], vals[a] })
		m := common.Median(vals)
		strs := []string{}
		for _, v := range vals {
			strs = append(strs, fmt.Sprint(v))
		}
		op := strings.TrimSpace("MED " + strings.Join(strs, " "))
		c.Op(op, fmt.Sprintf("O %d", m))
		r.Count(op, nb > 0)
		r.Inc("median_lists", 1)
		if nb > 0 {
			r.Inc("median_lists_with_liars", 1)
		}
		if n%2 == 0 && n > 0 {
			r.Inc("median_even_length", 1)
		}
		// oracle: a strict minority of liars cannot move the median out of the honest range
		if n > 0 && (m < hmin || m > hmax) {
			r.Violate("impl-violation", fmt.Sprintf("Median(%v)=%d outside honest range [%d,%d] with %d liars of %d", vals, m, hmin, hmax, nb, n), "median-range", map[string]interface{}{"values": strs, "liars": nb})
		}
		// oracle: definition
		s := append([]int64{}, vals...)
		sort.Slice(s, func(a, b int) bool { return s[a] < s[b] })
		if n%2 == 1 && m != s[n/2] {
			r.Violate("impl-violation", fmt.Sprintf("Median(%v)=%d is not the middle element %d", vals, m, s[n/2]), "median-def", map[string]interface{}{"values": strs})
		}
		if i < 3 {
			r.Sample(map[string]interface{}{"op": op, "go": m}, 8)
		}
	}
	// all-extreme lists (wrap-around of the sum), correspondence only
	for i := 0; i < 300; i++ {
		n := rng.Intn(6)
		strs := []string{}
		vals := []int64{}
		for k := 0; k < n; k++ {
			v := extremes[rng.Intn(len(extremes))]
			vals = append(vals, v)
			strs = append(strs, fmt.Sprint(v))
		}
		op := strings.TrimSpace("MED " + strings.Join(strs, " "))
		c.Op(op, fmt.Sprintf("O %d", common.Median(vals)))
		r.Inc("median_extreme_lists", 1)
	}
	r.Compare(c)
}

func runC18(r *Result, thorough bool) {
	r.Rule = "random lists of int64 claimed timestamps (honest cluster + strict minority of extreme/random liars) through common.Median vs the Lean median64; " +
		"hashgraph runs with lying clocks: block timestamp vs median of famous witnesses' claims (see stats). non-trivial: at least one liar outside the honest range"
	rng := rand.New(rand.NewSource(r.Seed))
	runC18median(r, thorough, rng)
	if hgC18 != nil {
		hgC18(r, thorough, rng)
	}
}

var hgC18 func(r *Result, thorough bool, rng *rand.Rand)
