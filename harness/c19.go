package main

import (
	"fmt"
	"math/rand"

	"github.com/mosaicnetworks/babble/src/peers"
)

func init() { runners["C19"] = runC19 }

// specSuperMajority: least integer strictly greater than 2n/3, computed by search
// (independent of the formula in the source).
func specSuperMajority(n int) int {
	s := 0
	for 3*s <= 2*n {
		s++
	}
	return s
}

// specTrusted: does a count of s distinct signatures exceed n/3 ?
func specMoreThanThird(n, s int) bool { return 3*s > n }

func runC19(r *Result, thorough bool) {
	r.Rule = "exhaustive n=0..100000 through peers.PeerSet (struct with n distinct keys; real NewPeerSet up to nReal), " +
		"compared with the generated Lean thresholds and with an independent search-based specification; " +
		"plus random add/remove sequences on real PeerSets vs the Lean list model; plus the decisions that use the thresholds: " +
		"hashgraphs built against the fame election (split votes, coin rounds, counts of exactly the supermajority, a decider " +
		"delivered late) on several real nodes, which must decide the same fame and deliver the same blocks; and real cores with a join and a leave " +
		"in which the joiner and the leaver sign every block: the anchor must hold valid signatures of more than a third of the validators of its own round. non-trivial: n>=1 (each n distinct)"
	rng := rand.New(rand.NewSource(r.Seed))
	defer c19Sites(r, thorough, rng)
	defer c19Trust(r, thorough, rand.New(rand.NewSource(r.Seed+7)))
	maxN := 100000
	nReal := 300
	if thorough {
		nReal = 3000
	}
	// --- thresholds, exhaustive ---
	c := &Case{ID: "thresholds"}
	byKey := map[string]*peers.Peer{}
	plist := []*peers.Peer{}
	real := newParticipants(rng, 8) // real keys for the small sets
	for n := 0; n <= maxN; n++ {
		if n > 0 {
			var p *peers.Peer
			if n <= len(real) {
				p = real[n-1].peer
			} else {
				p = peers.NewPeer(fmt.Sprintf("0X%064X", n), "", "")
			}
			plist = append(plist, p)
			byKey[p.PubKeyString()] = p
		}
		var ps *peers.PeerSet
		if n <= nReal {
			ps = peers.NewPeerSet(append([]*peers.Peer{}, plist...))
			r.Inc("real_constructor_sets", 1)
		} else {
			ps = &peers.PeerSet{Peers: plist, ByPubKey: byKey}
		}
		sm, tc, ln := ps.SuperMajority(), ps.TrustCount(), ps.Len()
		c.Op(fmt.Sprintf("Q %d %d", len(ps.Peers), ln), fmt.Sprintf("O %d %d", sm, tc))
		r.Count(fmt.Sprint(n), n >= 1)
		if ln != n {
			r.Violate("impl-violation", fmt.Sprintf("Len()=%d for a set of %d distinct keys", ln, n), "len", map[string]int{"n": n})
		}
		if n >= 1 {
			if sm != specSuperMajority(n) {
				r.Violate("impl-violation", fmt.Sprintf("SuperMajority(%d)=%d, least integer > 2n/3 is %d", n, sm, specSuperMajority(n)), "supermajority", map[string]int{"n": n, "got": sm})
			}
			// trusted <=> count > TrustCount must imply count > n/3; a single signature
			// suffices only for n = 1
			if !specMoreThanThird(n, tc+1) {
				r.Violate("impl-violation", fmt.Sprintf("TrustCount(%d)=%d: %d signatures would be trusted but are not more than n/3", n, tc, tc+1), "trustcount-low", map[string]int{"n": n, "got": tc})
			}
			if n == 1 && tc != 0 {
				r.Violate("impl-violation", fmt.Sprintf("TrustCount(1)=%d: a single signature must suffice for n=1", tc), "trustcount-n1", map[string]int{"n": n, "got": tc})
			}
			if n >= 2 && tc < 1 {
				r.Violate("impl-violation", fmt.Sprintf("TrustCount(%d)=%d: a single signature suffices although n>1", n, tc), "trustcount-single", map[string]int{"n": n, "got": tc})
			}
			// liveness side of the threshold: all n signatures must be able to reach trust
			if tc >= n {
				r.Violate("impl-violation", fmt.Sprintf("TrustCount(%d)=%d can never be exceeded", n, tc), "trustcount-high", map[string]int{"n": n, "got": tc})
			}
		}
		if n == 4 || n == 7 || n == 100000 {
			r.Sample(map[string]interface{}{"n": n, "superMajority": sm, "trustCount": tc}, 6)
		}
	}
	r.Exhaustive = true
	r.Compare(c)

	// --- add / remove sequences on real PeerSets ---
	pool := newParticipants(rng, 9)
	seqs := 200
	if thorough {
		seqs = 3000
	}
	for s := 0; s < seqs; s++ {
		c := &Case{ID: fmt.Sprintf("ops-%d", s)}
		c.Op("PS new")
		ps := peers.NewPeerSet([]*peers.Peer{})
		steps := 1 + rng.Intn(25)
		adds, rms := 0, 0
		for i := 0; i < steps; i++ {
			k := rng.Intn(len(pool))
			var op string
			if rng.Intn(3) > 0 {
				ps = ps.WithNewPeer(pool[k].peer)
				op = fmt.Sprintf("PS add %d", k)
				adds++
			} else {
				ps = ps.WithRemovedPeer(pool[k].peer)
				op = fmt.Sprintf("PS rm %d", k)
				rms++
			}
			names := []string{}
			for _, p := range ps.Peers {
				for j, q := range pool {
					if q.peer.PubKeyHex == p.PubKeyHex {
						names = append(names, fmt.Sprint(j))
					}
				}
			}
			c.Op(op, "O ["+joinComma(names)+"]")
			c.Op("PS len", fmt.Sprintf("O %d %d %d", ps.Len(), ps.SuperMajority(), ps.TrustCount()))
			// oracle: the thresholds of a *derived* set (built by additions and removals, possibly
			// after the thresholds of its parent were read) are those of its own size
			if n := len(ps.Peers); n >= 1 {
				sm, tc := ps.SuperMajority(), ps.TrustCount()
				if sm != specSuperMajority(n) {
					r.Violate("impl-violation", fmt.Sprintf("after %v: SuperMajority()=%d for %d members, least integer > 2n/3 is %d", c.Ops, sm, n, specSuperMajority(n)), "supermajority-derived", c.Ops)
				}
				if !specMoreThanThird(n, tc+1) || (n >= 2 && tc < 1) || (n == 1 && tc != 0) || tc >= n {
					r.Violate("impl-violation", fmt.Sprintf("after %v: TrustCount()=%d for %d members: %d signatures would be trusted", c.Ops, tc, n, tc+1), "trustcount-derived", c.Ops)
				}
			}
			// oracle: distinct members, Len = number of members
			if ps.Len() != len(ps.Peers) || len(ps.ByID) != len(ps.Peers) {
				r.Violate("impl-violation", fmt.Sprintf("after %v: Len()=%d, %d peers, %d ids", c.Ops, ps.Len(), len(ps.Peers), len(ps.ByID)), "len-after-ops", c.Ops)
			}
		}
		r.Count(c.Canon(), adds > 0 && rms > 0)
		r.Inc("op_sequences", 1)
		r.Inc("ops_add", adds)
		r.Inc("ops_rm", rms)
		if s == 0 {
			r.Sample(map[string]interface{}{"ops": c.Ops, "go_observations": c.Obs}, 6)
		}
		r.Compare(c)
	}
}

func joinComma(l []string) string {
	s := ""
	for i, x := range l {
		if i > 0 {
			s += ", "
		}
		s += x
	}
	return s
}

// c19Sites: the acceptance decisions that use the thresholds. Two supermajorities intersect in an
// honest validator only if every site counts with the same threshold: a site that asks for more
// (or less) than the least integer above 2n/3 lets two nodes decide differently.
func c19Sites(r *Result, thorough bool, rng *rand.Rand) {
	adoptOracles = map[string]bool{"C01": true, "C03": true}
	defer func() { adoptOracles = map[string]bool{} }()
	k := 6
	if thorough {
		k = 40
	}
	for i := 0; i < k; i++ {
		advNoJoin = true // static validator sets here: the thresholds are the subject, not their changes
		sc, reached := buildAdversarialScenario(rng, thorough)
		advNoJoin = false
		checkOracles(r, sc)
		measure(r, sc)
		r.Inc("quorum_site_scenarios", 1)
		r.Inc("quorum_site_scenarios_with_a_late_decider", boolInt(sc.heldBack > 0))
		r.Inc(fmt.Sprintf("adversarial_election_lasting_%d_rounds", reached), 1)
		r.Compare(sc.cs[0])
		sc.close()
	}
}

// c19Trust: the "more than a third" site with a changing validator set. A joiner whose set is not yet
// effective and a validator that has left sign every block a member holds (valid signatures, known
// keys); after every ProcessSigPool the member's anchor block must carry valid signatures of more
// than a third of the validators of ITS round — signatures of anybody else do not count.
func c19Trust(r *Result, thorough bool, rng *rand.Rand) {
	runs := 1
	if thorough {
		runs = 5
	}
	for ri := 0; ri < runs; ri++ {
		n := 3 + rng.Intn(2)
		cl := newCluster(rng, n, 10000, nil)
		steps := 220 + rng.Intn(80)
		var joiner *member
		leaveDone := false
		oracle := func(m *member) {
			h := m.core.Hashgraph()
			if h.AnchorBlock == nil {
				return
			}
			b, err := h.Store.GetBlock(*h.AnchorBlock)
			if err != nil {
				return
			}
			set, err := h.Store.GetPeerSet(b.RoundReceived())
			if err != nil {
				return
			}
			valid := 0
			for _, s := range b.GetSignatures() {
				if _, ok := set.ByPubKey[s.ValidatorHex()]; !ok {
					continue
				}
				if ok, err := b.Verify(s); err == nil && ok {
					valid++
				}
			}
			r.Inc("anchor_trust_checks", 1)
			if !specMoreThanThird(set.Len(), valid) && !(set.Len() == 1 && valid >= 1) {
				r.Violate("impl-violation", fmt.Sprintf("node %d: anchor block %d (round %d, %d validators) is trusted with %d valid signatures of its validators (%d entries in the signature map)",
					m.idx, b.Index(), b.RoundReceived(), set.Len(), valid, len(b.Signatures)), "anchor-trusted-below-third", nil)
			}
		}
		for s := 0; s < steps; s++ {
			act := cl.activeMembers()
			a, b := act[rng.Intn(len(act))], act[rng.Intn(len(act))]
			if a == b {
				continue
			}
			if rng.Intn(3) == 0 {
				cl.submit(a, cl.newTx())
			}
			if joiner == nil && s >= steps/6 {
				joiner = cl.startJoin(a)
			}
			if !leaveDone && s >= steps/3 && n >= 4 {
				cl.startLeave(cl.members[n-1])
				leaveDone = true
			}
			if (joiner != nil || leaveDone) && rng.Intn(5) == 0 {
				hgb := b.core.Hashgraph()
				who := []*member{}
				if joiner != nil {
					who = append(who, joiner)
				}
				if leaveDone {
					who = append(who, cl.members[n-1])
				}
				for _, m := range who {
					for idx := 0; idx <= hgb.Store.LastBlockIndex(); idx++ {
						if blk, err := hgb.Store.GetBlock(idx); err == nil {
							if bs, err := blk.Sign(m.key); err == nil {
								hgb.PendingSignatures.Add(bs)
								r.Inc("signatures_of_joiner_or_leaver_offered", 1)
							}
						}
					}
				}
				guarded(func() error { return b.core.ProcessSigPool() })
				oracle(b)
			}
			cl.pull(a, b, -1)
			cl.activateJoiners()
			oracle(a)
		}
		r.Inc("trust_site_runs_with_membership_change", 1)
		cl.close()
	}
}
