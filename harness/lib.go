package main

import (
	"bufio"
	"bytes"
	"crypto/sha256"
	"encoding/hex"
	"encoding/json"
	"fmt"
	"os"
	"os/exec"
	"strings"
)

// Violation is a concrete failing input found on the implementation (or on
// the model when the proof/correspondence is what broke).
type Violation struct {
	Kind   string      `json:"kind"` // impl-violation | correspondence-broken
	What   string      `json:"what"`
	Key    string      `json:"key"` // stable identification used by known_findings.json
	Replay interface{} `json:"replay"`
}

// Disagreement is one place where model and implementation observations differ.
type Disagreement struct {
	Case    string   `json:"case"`
	OpIndex int      `json:"op_index"`
	Op      string   `json:"op"`
	Go      []string `json:"go"`
	Model   []string `json:"model"`
	Ops     []string `json:"ops"`
}

// Result is what the harness hands back to ./check.
type Result struct {
	Property             string                 `json:"property"`
	Tier                 string                 `json:"tier"`
	Seed                 int64                  `json:"seed"`
	Evaluations          int                    `json:"evaluations"`
	DistinctNontrivial   int                    `json:"distinct_nontrivial"`
	Rule                 string                 `json:"rule"`
	Samples              []interface{}          `json:"samples"`
	TracesValidated      int                    `json:"traces_validated_against_impl"`
	DisagreementsChecked int                    `json:"disagreements_checked"`
	Disagreements        []Disagreement         `json:"disagreements"`
	Violations           []Violation            `json:"violations"`
	Stats                map[string]interface{} `json:"stats"`
	CoverageHoles        []string               `json:"coverage_holes"`
	Exhaustive           bool                   `json:"exhaustive"`
	Assumptions          []string               `json:"assumptions"`

	distinct map[string]bool
}

func NewResult(prop, tier string, seed int64) *Result {
	return &Result{Property: prop, Tier: tier, Seed: seed, Stats: map[string]interface{}{}, distinct: map[string]bool{},
		Samples: []interface{}{}, Disagreements: []Disagreement{}, Violations: []Violation{}, CoverageHoles: []string{}, Assumptions: []string{}}
}

func (r *Result) Inc(key string, by int) {
	v, _ := r.Stats[key].(int)
	r.Stats[key] = v + by
}

func (r *Result) Stat(key string) int {
	v, _ := r.Stats[key].(int)
	return v
}

// Count registers an evaluated case; nontrivial cases are counted once per
// distinct canonical text.
func (r *Result) Count(canon string, nontrivial bool) {
	r.Evaluations++
	if nontrivial {
		h := sha256.Sum256([]byte(canon))
		k := hex.EncodeToString(h[:8])
		if !r.distinct[k] {
			r.distinct[k] = true
			r.DistinctNontrivial++
		}
	}
}

func (r *Result) Sample(s interface{}, max int) {
	if len(r.Samples) < max {
		r.Samples = append(r.Samples, s)
	}
}

func (r *Result) Violate(kind, what, key string, replay interface{}) {
	// keep the report small: at most 5 per key
	n := 0
	for _, v := range r.Violations {
		if v.Key == key {
			n++
		}
	}
	if n < 3 {
		r.Violations = append(r.Violations, Violation{kind, what, key, replay})
	}
	r.Inc("violations_total", 1)
}

func (r *Result) Write(path string) {
	j, err := json.MarshalIndent(r, "", " ")
	if err != nil {
		fmt.Fprintln(os.Stderr, "harness: cannot encode result:", err)
		os.Exit(2)
	}
	if err := os.WriteFile(path, j, 0644); err != nil {
		fmt.Fprintln(os.Stderr, "harness:", err)
		os.Exit(2)
	}
}

// Case is a sequence of operation lines together with what the Go side observed
// for each of them.
type Case struct {
	ID  string
	Ops []string
	Obs [][]string
}

func (c *Case) Op(line string, obs ...string) {
	c.Ops = append(c.Ops, line)
	c.Obs = append(c.Obs, obs)
}

func (c *Case) Canon() string { return strings.Join(c.Ops, "\n") }

var driverPath string

// RunModel pipes the operation lines through the Lean driver and returns the
// model's observations per operation.
func RunModel(ops []string) ([][]string, error) {
	cmd := exec.Command(driverPath)
	var in bytes.Buffer
	for _, o := range ops {
		in.WriteString(o)
		in.WriteByte('\n')
	}
	cmd.Stdin = &in
	var out, errb bytes.Buffer
	cmd.Stdout = &out
	cmd.Stderr = &errb
	if err := cmd.Run(); err != nil {
		return nil, fmt.Errorf("driver failed: %v: %s", err, errb.String())
	}
	res := [][]string{}
	cur := []string{}
	sc := bufio.NewScanner(&out)
	sc.Buffer(make([]byte, 1<<20), 1<<28)
	for sc.Scan() {
		l := sc.Text()
		if l == "." {
			res = append(res, cur)
			cur = []string{}
		} else {
			cur = append(cur, l)
		}
	}
	if len(res) != len(ops) {
		return res, fmt.Errorf("driver answered %d of %d operations: %s", len(res), len(ops), errb.String())
	}
	return res, nil
}

func sameObs(a, b []string) bool {
	if len(a) != len(b) {
		return false
	}
	for i := range a {
		if a[i] != b[i] {
			return false
		}
	}
	return true
}

// Compare runs the model on the case and records the first disagreement.
// It returns true when model and implementation agree on every operation.
func (r *Result) Compare(c *Case) bool {
	if driverPath == "" {
		r.Inc("model_runs_skipped_no_driver", 1)
		return true
	}
	model, err := RunModel(c.Ops)
	r.TracesValidated++
	if err != nil {
		r.Disagreements = append(r.Disagreements, Disagreement{Case: c.ID, OpIndex: -1, Op: err.Error(), Ops: clip(c.Ops, 400)})
		return false
	}
	for i := range c.Ops {
		r.DisagreementsChecked++
		if !sameObs(model[i], c.Obs[i]) {
			if len(r.Disagreements) < 5 {
				r.Disagreements = append(r.Disagreements, Disagreement{Case: c.ID, OpIndex: i, Op: c.Ops[i], Go: c.Obs[i], Model: model[i], Ops: clip(c.Ops[:i+1], 400)})
				if dump := os.Getenv("VERIF_DUMP_OPS"); dump != "" {
					os.WriteFile(dump, []byte(strings.Join(c.Ops[:i+1], "\n")+"\n"), 0644)
				}
			}
			r.Inc("disagreements_total", 1)
			return false
		}
	}
	return true
}

func clip(l []string, n int) []string {
	if len(l) <= n {
		return l
	}
	return append([]string{fmt.Sprintf("... (%d earlier operations omitted)", len(l)-n)}, l[len(l)-n:]...)
}

func esc(s string) string {
	if s == "" {
		return "%"
	}
	var b strings.Builder
	for i := 0; i < len(s); i++ {
		c := s[i]
		if c <= ' ' || c == '%' || c >= 127 {
			fmt.Fprintf(&b, "%%%02X", c)
		} else {
			b.WriteByte(c)
		}
	}
	return b.String()
}
