package main

// Gossip DAGs built by a scheduler that works against the fame election.
//
// Random gossip decides every election in two rounds, so the vote-copying rounds, the coin rounds
// and the exact supermajority comparisons of DecideFame are reached only by scripted hashgraphs.
// Here a beam search over sequences of (creator, other-parent) choices looks for DAGs in which the
// election of some witness stays undecided for many rounds. The search runs on a small
// re-computation of rounds, witnesses and votes (textbook definitions, static validator set); that
// re-computation only steers the search and is never used as an oracle: the DAG found is then
// built from real signed events, run through the real code and the Lean models like any other
// scenario, and the length of the election actually reached is measured on the real node.
// The DAG is finished with ordinary random gossip so that rounds get decided and blocks are
// delivered.

import (
	"fmt"
	"math/rand"
	"os"

	hg "github.com/mosaicnetworks/babble/src/hashgraph"
	"sort"
)

type lev struct {
	id      int
	creator int
	sp, op  *lev
	anc     []uint64 // ancestors-or-self, by id
	la      []*lev   // latest ancestor-or-self per creator
	round   int
	wit     bool
	stale   bool
	opCreator int // the creator whose head was taken as other-parent (also when it had no event yet)
}

func (e *lev) has(x *lev) bool { return e.anc[x.id/64]&(1<<uint(x.id%64)) != 0 }

type election struct {
	x      *lev
	hiddenAt int
	hidden *lev // a witness that decided this election and is kept without descendants
	votes  map[int]bool // witness id -> vote
	levels [][2]int     // yes/no per level x.round+1 ...
}

type lstate struct {
	parent *lstate
	ev     *lev
	heads  []*lev
	wits   map[int][]*lev // round -> witnesses (shared until a witness is added)
	els    []*election    // live elections
	count  int
	last   int
	resolved int // elections decided once more without their hidden decider
	hiddenEv *lev
	frozen int // creator of a hidden decider (it creates nothing more, nobody refers to it), or -1
	score  float64
	best   int // longest live election, in rounds
}

const levWords = 4 // up to 256 events

func lightSM(n int) int { return 2*n/3 + 1 }

func stronglySeesLight(x, w *lev, n int) bool {
	c := 0
	for p := 0; p < n; p++ {
		// Babble's coordinates: p counts when one of its events known to x has, as last known
		// event of w's creator, w itself or a self-descendant of w that is still in w's round
		for z := x.la[p]; z != nil; z = z.sp {
			zz := z.la[w.creator]
			if zz == nil || !zz.has(w) {
				break
			}
			if zz.round == w.round {
				c++
				break
			}
		}
	}
	return c >= lightSM(n)
}

// extend returns the state after creator c creates an event on top of op.
func (s *lstate) extend(rng *rand.Rand, n, c int, op *lev, stale bool, opc ...int) *lstate {
	sp := s.heads[c]
	e := &lev{id: s.count, creator: c, sp: sp, op: op, anc: make([]uint64, levWords), la: make([]*lev, n), stale: stale}
	if len(opc) > 0 {
		e.opCreator = opc[0]
	} else if op != nil {
		e.opCreator = op.creator
	}
	for _, p := range []*lev{sp, op} {
		if p == nil {
			continue
		}
		for i := range e.anc {
			e.anc[i] |= p.anc[i]
		}
		for q := 0; q < n; q++ {
			if p.la[q] != nil && (e.la[q] == nil || p.la[q].id > e.la[q].id) {
				e.la[q] = p.la[q]
			}
		}
		if p.round > e.round {
			e.round = p.round
		}
	}
	e.anc[e.id/64] |= 1 << uint(e.id%64)
	e.la[c] = e
	seen := 0
	for _, w := range s.wits[e.round] {
		if stronglySeesLight(e, w, n) {
			seen++
		}
	}
	if seen >= lightSM(n) {
		e.round++
	}
	e.wit = sp == nil || e.round > sp.round
	t := &lstate{parent: s, ev: e, heads: append([]*lev{}, s.heads...), wits: s.wits, els: s.els, count: s.count + 1, last: s.last, frozen: s.frozen, resolved: s.resolved, hiddenEv: s.hiddenEv}
	t.heads[c] = e
	if e.round > t.last {
		t.last = e.round
	}
	if e.wit {
		t.wits = map[int][]*lev{}
		for r, l := range s.wits {
			t.wits[r] = l
		}
		t.wits[e.round] = append(append([]*lev{}, s.wits[e.round]...), e)
		// votes of the new witness in every live election
		sm := lightSM(n)
		t.els = nil
		for _, el := range s.els {
			d := e.round - el.x.round
			if d <= 0 {
				t.els = append(t.els, el)
				continue
			}
			v, decided := false, false
			if d == 1 {
				v = e.has(el.x)
			} else {
				yes, no := 0, 0
				for _, w := range s.wits[e.round-1] {
					if wv, ok := el.votes[w.id]; ok && stronglySeesLight(e, w, n) {
						if wv {
							yes++
						} else {
							no++
						}
					}
				}
				v = yes >= no
				tt := yes
				if no > yes {
					tt = no
				}
				if d%4 != 0 {
					decided = tt >= sm
				} else if tt < sm {
					v = true // the coin: the middle byte of a hash is almost never zero
				}
			}
			if decided {
				// This election is over for whoever knows e. When the next level is a coin round
				// and nobody else is frozen, keep e as a leaf: the others go on voting without it
				// (a node that receives e late must reach the same decision through the coin round).
				if el.hidden != nil && d >= el.hiddenAt+2 {
					t.resolved++
				}
				if (d+1)%4 == 0 && s.frozen < 0 && el.hidden == nil && hideDeciders && (!v || !hideOnlyNo) {
					ne := &election{x: el.x, hidden: e, hiddenAt: d, votes: el.votes, levels: el.levels}
					t.els = append(t.els, ne)
					t.frozen = e.creator
					t.hiddenEv = e
				}
				continue
			}
			ne := &election{x: el.x, hidden: el.hidden, hiddenAt: el.hiddenAt, votes: map[int]bool{}, levels: append([][2]int{}, el.levels...)}
			for k, b := range el.votes {
				ne.votes[k] = b
			}
			ne.votes[e.id] = v
			for len(ne.levels) < d {
				ne.levels = append(ne.levels, [2]int{})
			}
			if v {
				ne.levels[d-1][0]++
			} else {
				ne.levels[d-1][1]++
			}
			t.els = append(t.els, ne)
		}
		if e.round >= minTargetRound {
			t.els = append(t.els, &election{x: e, votes: map[int]bool{}})
		}
	}
	// score: the longest live election first, evenly split votes next
	t.best = 0
	bestScore := 0.0
	for _, el := range t.els {
		l := len(el.levels)
		sc := 10 * float64(l)
		for i, lv := range el.levels {
			m := lv[0]
			if lv[1] < m {
				m = lv[1]
			}
			w := 1.0
			if i >= l-2 {
				w = 3
			}
			sc += w * float64(m)
			// the level before a coin round: a supermajority of NO keeps the coin round split
			// (voters that see all of it copy NO, the others flip a coin that almost always says YES)
			if (i+2)%4 == 0 && lv[1] >= lightSM(n) && lv[0] >= 1 {
				sc += 8
			}
		}
		if el.hidden != nil {
			sc += 25
		}
		if hideDeciders && el.hidden == nil {
			// two levels before a coin round: a supermajority of NO with a dissenter lets one
			// witness of the next level decide while the others only vote
			for i, lv := range el.levels {
				if (i+3)%4 == 0 && lv[1] >= lightSM(n) && lv[0] >= 1 {
					sc += 12
				}
			}
		}
		if sc > bestScore {
			bestScore = sc
		}
		if hideDeciders && el.hidden == nil {
			// looking for an election that goes on without its hidden decider
			continue
		}
		if l > t.best {
			t.best = l
		}
	}
	// a creator lagging one round behind is what produces witnesses the others vote NO on
	lag := 0
	for _, h := range t.heads {
		if h != nil && h.round < t.last {
			lag++
		}
	}
	if lag >= 1 && lag <= n-lightSM(n)+1 {
		bestScore += lagBonus
	}
	if t.resolved > 0 {
		t.best = 100
	}
	t.score = bestScore + 0.5*float64(t.last) + 100*float64(t.resolved) + rng.Float64()
	return t
}

var hideDeciders = true

// coreLike: schedules a real core can follow — no separate first events (a creator's first event is
// made by its first pull, with the other node's head as other-parent if it has one) and the
// other-parent is always the other creator's latest event
var coreLike = false
var lagBonus = 0.0
var minTargetRound = 0 // the fame of a round-0 witness rarely changes a block: mostly look at later rounds
var advHidden *gEvent
var hideOnlyNo = true // only deciders of "not famous": after them the coin (almost always YES) goes against the decision

// beamSearch returns the sequence of events of the best DAG found.
func beamSearch(rng *rand.Rand, n, steps, width, target int) ([]*lev, int, []*lev) {
	start := &lstate{heads: make([]*lev, n), wits: map[int][]*lev{}, frozen: -1}
	if !coreLike {
		for c := 0; c < n; c++ {
			start = start.extend(rng, n, c, nil, false)
		}
	}
	beam := []*lstate{start}
	var best *lstate = start
	for step := 0; step < steps && start.count+step < levWords*64-1; step++ {
		next := []*lstate{}
		for _, s := range beam {
			for c := 0; c < n; c++ {
				for o := 0; o < n; o++ {
					if o == c || c == s.frozen || o == s.frozen {
						continue
					}
					if n > 4 && rng.Intn(n) >= 4 {
						continue
					}
					if s.heads[o] == nil && !coreLike {
						continue
					}
					next = append(next, s.extend(rng, n, c, s.heads[o], false, o))
					if s.heads[o] != nil && s.heads[o].sp != nil && rng.Intn(6) == 0 && !coreLike {
						next = append(next, s.extend(rng, n, c, s.heads[o].sp, true))
					}
				}
			}
		}
		sort.Slice(next, func(i, j int) bool { return next[i].score > next[j].score })
		if len(next) > width {
			next = next[:width]
		}
		beam = next
		if len(beam) == 0 {
			break
		}
		if beam[0].best > best.best || (beam[0].best == best.best && beam[0].score > best.score) {
			best = beam[0]
		}
		if best.best >= target {
			break
		}
	}
	evs := []*lev{}
	for s := best; s != nil && s.ev != nil; s = s.parent {
		evs = append([]*lev{s.ev}, evs...)
	}
	hidden := []*lev{}
	if best.hiddenEv != nil {
		hidden = append(hidden, best.hiddenEv)
	}
	return evs, best.best, hidden
}

// genAdversarial builds a static DAG of n validators with (at least) one long election.
// advJoin: a join request (of a participant that stays silent) is carried by one of the first events,
// so that the validator set grows in the middle of the long election
var advJoin = false
var forceAdvJoin = false
var advNoJoin = false

func genAdversarial(rng *rand.Rand, n int, steps, width, target, tail int) (*dag, int, []*gEvent) {
	levs, predicted, hiddenL := beamSearch(rng, n, steps, width, target)
	extra := 0
	if advJoin {
		extra = 1
	}
	d := newDag(rng, n, extra)
	joinAt := n + rng.Intn(n+1)
	heads := make([]*gEvent, n)
	by := map[*lev]*gEvent{}
	ts := int64(1600000000)
	for _, l := range levs {
		ntx := 0
		if l.sp == nil || rng.Intn(3) == 0 {
			ntx = 1
		}
		var itxs []hg.InternalTransaction
		var itxDesc []string
		if advJoin && l.id == joinAt {
			itx := hg.NewInternalTransactionJoin(*d.parts[n].peer)
			itx.Sign(d.parts[n].key)
			itxs, itxDesc = []hg.InternalTransaction{itx}, []string{fmt.Sprintf("+%d", n)}
		}
		g := d.newEvent(rng, l.creator, by[l.sp], by[l.op], ntx, itxs, itxDesc, ts, 0)
		by[l] = g
		heads[l.creator] = g
		ts++
	}
	// ordinary gossip to finish elections and deliver blocks
	for k := 0; k < tail; k++ {
		c := rng.Intn(n)
		o := rng.Intn(n - 1)
		if o >= c {
			o++
		}
		ntx := 0
		if rng.Intn(3) == 0 {
			ntx = 1
		}
		heads[c] = d.newEvent(rng, c, heads[c], heads[o], ntx, nil, nil, ts, 0)
		ts++
	}
	hidden := []*gEvent{}
	for _, l := range hiddenL {
		hidden = append(hidden, by[l])
	}
	return d, predicted, hidden
}

func buildAdversarialScenario(rng *rand.Rand, thorough bool) (*scenario, int) {
	hideDeciders = rng.Intn(3) != 0
	advJoin = (rng.Intn(3) == 0 || forceAdvJoin) && !advNoJoin
	defer func() { advJoin = false }()
	hideOnlyNo = rng.Intn(4) != 0
	minTargetRound = []int{0, 1, 1, 2}[rng.Intn(4)]
	n := []int{4, 4, 4, 5, 7}[rng.Intn(5)]
	if hideDeciders && rng.Intn(4) != 0 {
		n = 4
	}
	steps, width := 16*n+10, 30
	if thorough {
		steps, width = 24*n, 60
	}
	target := 4 + rng.Intn(6)
	if hideDeciders {
		target = 6 + rng.Intn(3)
	}
	tail := 8 * n
	if advJoin {
		tail = 24 * n // long enough for the rounds created around the change to be decided and delivered
	}
	d, predicted, hidden := genAdversarial(rng, n, steps, width, target, tail)
	maxOrders := 10
	if thorough {
		maxOrders = 40
	}
	if len(hidden) > 0 {
		advHidden = hidden[0]
	}
	return scenarioFromDag(rng, d, n, maxOrders, 2, "adversarial election", hidden...), predicted
}

func init() {
	// experiment: how long do the elections of the adversarial generator last
	runners["ADVS"] = func(r *Result, thorough bool) {
		rng := rand.New(rand.NewSource(r.Seed))
		stat := map[string][]int{}
		for i := 0; i < 300; i++ {
			n := []int{4, 4, 4, 5, 7}[rng.Intn(5)]
			hideDeciders = rng.Intn(3) != 0
			hideOnlyNo = rng.Intn(4) != 0
			minTargetRound = []int{0, 1, 1, 2}[rng.Intn(4)]
			target := 4 + rng.Intn(6)
			if hideDeciders {
				target = 6
			}
			steps, width := 70, 30
			if thorough {
				steps, width = 110, 60
			}
			_, predicted, hidden := beamSearch(rng, n, steps, width, target)
			k := fmt.Sprintf("n=%d hide=%v minRound=%d", n, hideDeciders, minTargetRound)
			ok := 0
			if (hideDeciders && predicted >= 100 && len(hidden) > 0) || (!hideDeciders && predicted >= 4) {
				ok = 1
			}
			stat[k] = append(stat[k], ok)
		}
		keys := []string{}
		for k := range stat {
			keys = append(keys, k)
		}
		sort.Strings(keys)
		for _, k := range keys {
			c := 0
			for _, v := range stat[k] {
				c += v
			}
			println(k, c, "/", len(stat[k]))
		}
	}
	runners["ADV"] = func(r *Result, thorough bool) {
		rng := rand.New(rand.NewSource(r.Seed))
		adoptOracles = map[string]bool{"C01": true, "C03": true}
		nsc := 40
		if os.Getenv("ADVN") != "" {
			fmt.Sscan(os.Getenv("ADVN"), &nsc)
		}
		for i := 0; i < nsc; i++ {
			forceAdvJoin = os.Getenv("ADVJOIN") != ""
			sc, predicted := buildAdversarialScenario(rng, thorough)
			before := len(r.Violations)
			checkOracles(r, sc)
			println("n", sc.opts.n0, "events", len(sc.d.events), "predicted", predicted, "real", sc.d.maxElection, "coinSteps", sc.d.coinSteps, "held back", sc.heldBack, "nodes", len(sc.nodes), "join", sc.opts.extra, "violations", len(r.Violations)-before)
			if len(r.Violations) > before {
				w := r.Violations[len(r.Violations)-1].What
				if len(w) > 400 {
					w = w[:400]
				}
				println("   ", r.Violations[len(r.Violations)-1].Key, w)
			}
			if sc.heldBack > 0 && os.Getenv("ADVDBG") != "" {
				for _, nd := range sc.nodes[:6] {
					pos := -1
					for k, g := range nd.order {
						if g == advHidden {
							pos = k
						}
					}
					line := fmt.Sprint(" node ", nd.id, " hidden ", advHidden.name, " delivered at ", pos, " of ", len(nd.order), ":")
					for rr := 0; rr <= 3; rr++ {
						ri, err := nd.store.GetRound(rr)
						if err != nil {
							continue
						}
						names := []string{}
						for x, re := range ri.VerifCreated() {
							if re.Witness {
								names = append(names, fmt.Sprintf("%s=%d", sc.d.byHex[x].name, re.Famous))
							}
						}
						sort.Strings(names)
						line += fmt.Sprint(" r", rr, names)
					}
					println(line)
				}
			}
			sc.close()
		}
		for _, v := range r.Violations {
			w := v.What
			if len(w) > 300 {
				w = w[:300]
			}
			println("KEY", v.Key, w)
		}
	}
}
