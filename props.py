"""Per-property configuration shared by ./check and ./mkmanifest."""

TRUSTED_COMMON = [
    "Lean 4.33 kernel (thorough tier: leanchecker re-check of the compiled module); axioms allowed: propext, Classical.choice, Quot.sound",
    "extract/ (go/ast pattern translation of the quorum sites, constants, RPC gate, fast-forward step order) -> lean/Babble/Generated.lean",
    "harness/ + lean driver + comparison of canonicalised observations (the correspondence check)",
]

PROPS = {
    "C18": {
        "title": "Block timestamps are Byzantine-tolerant medians",
        "design_ref": "DESIGN.md §3 C18",
        "technique": "Lean 4 proof over a model of common.Median (int64 semantics) + differential correspondence with the Go code",
        "level_text": "Proof (Lean 4): median_between / block_timestamp_bounded hold for every list of int64 timestamps and every strict minority of liars, "
                      "for the executable model median64 of common.Median (wrap-around and truncating division included); the model is tied to the code by "
                      "running common.Median and the model on the same random/extreme lists, and the block timestamp is tied to the median of the famous "
                      "witnesses by hashgraph runs with lying clocks.",
        "level_note": "Trusted: Lean kernel; correspondence harness; honest range assumed within +-2^62 (no int64 overflow of a sum of two honest timestamps).",
        "trusted_base": ["sort.Slice sorts (Go stdlib)", "model of int64 addition: wrap modulo 2^64; model of Go '/' : Int.tdiv"],
        "assumptions": ["honest timestamps lie in [-2^62, 2^62) so that the sum of two honest values does not overflow int64 (Unix nanoseconds do)"],
    },
    "C19": {
        "title": "Quorum thresholds",
        "design_ref": "DESIGN.md §3 C19",
        "technique": "Lean 4 proof about threshold formulas regenerated from the Go AST + exhaustive correspondence n=0..100000",
        "level_text": "Proof (Lean 4): sm_least, trusted_needs_more_than_third, two_supermajorities_intersect, supermajority_has_honest_majority, "
                      "trusted_has_honest_signer, len_after_ops hold for every n / every finite validator type / every add-remove sequence, about the "
                      "definitions regenerated on every run from src/peers/peer_set.go; the float ceil and the real PeerSet are tied to the generated "
                      "definitions exhaustively for n=0..100000.",
        "level_note": "Trusted: Lean kernel; the extractor's translation of `2*Len()/3+1` and `int(math.Ceil(float64(Len())/float64(3)))` (ceilDiv) — validated exhaustively for n<=100000 against the real code; FNV-32 peer ids distinct.",
        "trusted_base": ["float64 ceil of n/3 equals integer ceilDiv for n <= 100000 (checked exhaustively on every run)"],
        "assumptions": ["peer ids (FNV-32 of the public key) are distinct for distinct keys"],
    },
}

# Properties not (yet) claimed. Kept current by hand; see DESIGN.md.
_ALL = ["C%02d" % i for i in range(1, 21)]
_PENDING_REASON = "check not built yet in this revision of the framework (planned; see DESIGN.md §7) — not a claim that the technique cannot apply"
NOT_APPLICABLE = [{"property_id": p, "reason": _PENDING_REASON} for p in _ALL if p not in PROPS]
