"""Per-property configuration shared by ./check and ./mkmanifest."""

TRUSTED_COMMON = [
    "Lean 4.33 kernel (thorough tier: leanchecker re-check of the compiled module); axioms allowed: propext, Classical.choice, Quot.sound",
    "extract/ (go/ast pattern translation of the quorum sites, constants, RPC gate, fast-forward step order, field tables of the database and wire forms of an event) -> lean/Babble/Generated.lean",
    "harness/ + lean driver + comparison of canonicalised observations (the correspondence check)",
    "fingerprint/ + sources.py + fingerprints.json: the functions each hand-written model mirrors are pinned by the SHA-256 of their go/ast-normalised source (comments, formatting and logging ignored); a change to one of them breaks the tie and is reported even when no failing input is found",
]

PROPS = {
    "C11": {
        "title": "Crash recovery",
        "design_ref": "DESIGN.md §3 C11",
        "technique": "Lean 4 proofs on the bootstrap-as-replay model (redelivery prefix at every crash point, gap-free topological log, restored head admits the next self-event) + child-process SIGKILL harness at store-write boundaries on Badger-backed real cores",
        "level_text": "PARTIAL proof (Lean 4) for the model (bootstrap = re-insertion of the durable topological log into a fresh hashgraph): what was delivered before a crash — between two insertions or between two processed rounds of a pass — is a prefix of what bootstrap re-delivers (redelivered_prefix, crash_inside_pass); the topological counter equals the number of stored events in every reachable state and refused events consume no index (topo_is_event_count, refused_consumes_no_index: no holes at which Bootstrap would stop); a self-event built on the restored head passes admission and a re-used height is refused (next_self_event_admitted, reused_height_refused). Assumed and exercised, not proved: Badger durability under SIGKILL and the JSON database form. Harness: a child process runs a seeded gossip schedule on Badger-backed cores and SIGKILLs itself at the k-th store write (before/after), durable logs record deliveries and known events; the parent reopens, bootstraps with reset applications and compares re-delivered blocks, known events and head, then continues gossip among the recovered nodes (agreement, no self-fork); clean shutdown included.",
        "level_note": "Trusted: Lean kernel; operational model tied by correspondence (C01-C04); Badger's durability (SyncWrites=false, value-log replay) and the OS are exercised by real process kills, not proved.",
        "trusted_base": ["a committed Badger transaction survives SIGKILL of the process (exercised at every sampled kill point)", "event database form (MarshalDB/UnmarshalDB) keeps what InsertEvent reads (exercised: C15/C16)"],
        "assumptions": ["the application is reset before bootstrap (as Babble requires)"],
    },
    "C06": {
        "title": "Liveness under fair gossip",
        "design_ref": "DESIGN.md §3 C06",
        "technique": "Lean 4 proofs of the deterministic ingredients (unanimous votes decide within two rounds, coin period, busy predicate, progress of ProcessDecidedRounds) + exploration of adversarial-prefix / fair-suffix schedules on real cores (labelled exploration, not proof)",
        "level_text": "PARTIAL proof (Lean 4): for Babble's tally rule (operators and coin period regenerated) a unanimous vote is decided by every witness of the next normal round and a coin round is always followed by a normal one, so unanimity decides within two rounds (unanimous_decides_within_two); core.busy is false iff nothing loaded is undetermined, the pools are empty and the target round is reached (busy_iff, shape checked by the extractor); ProcessDecidedRounds consumes a decided round at the head of the queue. NOT proved and not provable as stated: a bound on the number of exchanges — split elections end through coin rounds (the middle byte of a hash). That clause is EXPLORATION ONLY: G2 runs with an adversarial prefix (truncated and failing pulls, a silent minority < n/3, submissions, a join) followed by fair all-pairs cycles; oracle: all live validators idle and everything accepted by a live validator committed within 120 cycles (observed maximum is recorded in the evidence).",
        "level_note": "Trusted: Lean kernel for the lemmas; the bounded-termination clause rests on exploration of schedules (labelled as such in the evidence), because the voting rule's termination is probabilistic.",
        "trusted_base": ["the liveness clause is explored, not proved: schedules are sampled from one PRNG seed"],
        "assumptions": ["no validator equivocates; the live set is a supermajority"],
    },
    "C05": {
        "title": "Transaction integrity",
        "design_ref": "DESIGN.md §3 C05",
        "technique": "Lean 4 proof of pool conservation over all operation sequences (model of addTransactions / addSelfEvent) + differential correspondence + exactly-once oracle on real cores with truncated and failing pulls",
        "level_text": "PARTIAL proof (Lean 4): for every interleaving of submissions, successful self-events (with refills appended during insertion) and failed self-events, what a node accepted equals, as a list, the concatenation of its own events' payloads followed by its pool: nothing dropped, duplicated or reordered (pool_conservation, occurrences_preserved); a failed insertion leaves the pool unchanged; every committed transaction comes from an event of the frame (C04). Excluded by hypothesis: a consensus-pass error after a successful InsertEvent (store failures below the supported cache range); the concurrent refill race is runtime. Tied to the code by G2 runs with empty / duplicate / binary transactions, truncated pulls and failing pulls: the list equality is checked on every node after every step and compared with the model; network oracle: committed count per content <= submitted count, all nodes deliver the same transaction sequence, and after a fair suffix everything is committed exactly once.",
        "level_note": "Trusted: Lean kernel; pool model tied by correspondence; agreement (C01) for the cross-node part.",
        "trusted_base": ["pool model Babble.Core tied to core.addTransactions / addSelfEvent by correspondence on real cores"],
        "assumptions": ["InsertEventAndRunConsensus either fails before the event enters the DAG or succeeds (no pass error after insertion): holds within the supported cache range"],
    },
    "C20": {
        "title": "The application proxy is transparent",
        "design_ref": "DESIGN.md §3 C20",
        "technique": "Lean 4 proof about the retry loop (retry counts regenerated) + differential correspondence of attempts/outcome under injected faults + byte-exact transport oracle on both real socket proxies and the in-process proxy",
        "level_text": "PARTIAL proof (Lean 4): the retry loop of the socket proxy clients reports an error iff every attempt made failed, a success carries the reply of the first successful attempt, at most `retries` attempts are made, and with the shipped (regenerated) retry counts a success is never empty. Not modelled: net/rpc, jsonrpc, TCP, timing. Decided by the harness: type-directed blocks, commit responses, snapshots and transactions through both real socket proxies (loopback TCP) and the in-process proxy with one recording handler, compared byte for byte, submission order preserved; a fake application endpoint refusing / dropping / garbling connections at each call position: outcome and number of attempts compared with the model, never a zero-valued success; an application whose commit handler fails 0-4 times for a block behind the real socket proxy: outcome and number of handler invocations compared with the model, a success must be an answer the application produced.",
        "level_note": "Trusted: Lean kernel; extractor (retries: 3 in both clients); net/rpc + jsonrpc + encoding/json as they are.",
        "trusted_base": ["net/rpc/jsonrpc and TCP are exercised by the harness, not modelled"],
        "assumptions": ["timing: a timed-out CommitBlock may be delivered to a slow application more than once by the retry (D16): not exercised deterministically, recorded in DESIGN.md"],
    },
    "C15": {
        "title": "Encoding identity",
        "design_ref": "DESIGN.md §3 C15",
        "technique": "Lean 4 proof that the compact wire form is lossless under the admission invariant (model of SetWireInfo/ToWire/ReadWireInfo) + field tables of MarshalDB / UnmarshalDB / ToWire regenerated from event.go and checked symmetric and complete + differential correspondence + real-encoder round-trip oracle (wire, database, JSON, map order)",
        "level_text": "PARTIAL proof (Lean 4): for two nodes whose histories satisfy the admission invariant (C07) an event converted to its wire form on one and read back on the other, which holds its parents, resolves to exactly the sender's parent hashes and carries every other body field verbatim (wire_roundtrip), hence same body, hash and signature validity. Byte level (model Babble.ByteCodec, compared value for value with common.EncodeToString / DecodeFromString and keys.EncodeSignature / DecodeSignature): decoding the canonical hexadecimal spelling of any byte string and the canonical base-36 spelling of any signature (r, s) gives the value back, and the canonical spellings are injective (hex_roundtrip, hex_spelling_injective, signature_roundtrip, signature_spelling_injective). The model of the conversion is compared with Event.ToWire / ReadWireInfo on real hashgraphs. Not modelled: encoding/json, ugorji codec, base64, SHA-256; the JSON transport of blocks, frames and events (nil vs empty slices, binary transactions), the database form after eviction and reopen, and the independence of the frame hash from map fill order are decided by the oracle on the real encoders, including events served by a node that adopted them through a fast-forward frame.",
        "level_note": "Trusted: Lean kernel; wire model tied by correspondence; FNV-32 participant ids injective; hashes determine (creator, index).",
        "trusted_base": ["encoding/json, ugorji codec (canonical), base64, SHA-256 are used as they are by the oracle", "participant ids (FNV-32) injective on the participants of a run", "byte-level model Babble.ByteCodec of fmt %X / encoding/hex / strings.Split / math/big Text and SetString in base 36: hand-written, tied to the Go functions by the value-for-value correspondence run"],
        "assumptions": ["event id = hash of the body determines creator and index (hypothesis hhash)", "bytes are naturals below 256; ECDSA signature components are non-negative"],
    },
    "C13": {
        "title": "Fast-sync continuity",
        "design_ref": "DESIGN.md §3 C13",
        "technique": "exact operational Lean model of Reset / InsertFrameEvent / lower bound tied by differential correspondence + continuity oracle (hashgraph level and real cores); Lean theorems on the block-index base after reset",
        "level_text": "PARTIAL proof (Lean 4): after a reset the delivered indexes continue consecutively from the anchor (block_indexes_consecutive_after_reset, C02) and the passes keep the append-only / output-table invariants; the unconditional continuity statement is NOT a theorem (it is false for some histories: see the recorded finding). It is decided by the correspondence of the exact operational model (Reset, InsertFrameEvent, round lower bound, missing rounds, validator-set history shipped with the frame) with the code, and by the oracle: for every anchor of every run a node reset from the full node's block + frame (through JSON) and fed the rest of the history must deliver the full node's blocks (body hash) and validator-set table; frames of one round computed by nodes with different insertion orders must be identical; the same on real cores fast-forwarding at a moment where a membership change is pending.",
        "level_note": "Trusted: hand-written operational model tied by correspondence; Lean kernel for the index theorems. Known finding: events of a lagging creator older than the root window (ROOT_DEPTH) get a different round on a reset node.",
        "trusted_base": ["operational model Babble.HG (resetFrom, insertFrameEvent, rrLoop with lower bound) tied to Hashgraph.Reset by correspondence"],
        "assumptions": ["the reset node can insert the events it receives (property's own proviso)"],
    },
    "C10": {
        "title": "Validator-set history is a replayable function of the committed blocks",
        "design_ref": "DESIGN.md §3 C10",
        "technique": "Lean 4 proof that the validator-set table built by the commit callback equals the replay specification (activation delay regenerated) + differential correspondence and independent replay oracle on real cores",
        "level_text": "Proof (Lean 4): for every genesis set and every sequence of committed blocks with strictly increasing round received (C02), the set PeerSetCache.Get returns for round r is the genesis set modified in block order by exactly the accepted receipts of the blocks with round received + 6 <= r (table_is_replay), the node's latest validator set is the full replay, committing a block never changes the set of a round below its round received + 6 (change_never_retroactive), the operational model's commit callback is one step of that table construction and a block's peer list is the table's set at its round received. Since the round received of delivered blocks is proved strictly increasing for the operational model (HG.blocks_rr_increasing, C02), the statement holds without that hypothesis for every reachable state of a node started from genesis (node_history_is_replay, node_validators_are_replay). Tied to the code by G2 runs with successive / simultaneous / refused joins, leave, re-join and a late joiner: every member's GetPeerSet(r) vs the Lean table and vs an independent Go replay of its delivered blocks; PeersHash of every block; histories across members. PARTIAL: values memoised before an entry existed (the R+6 assumption) are covered by the C01 oracle, not by a theorem.",
        "level_note": "Trusted: Lean kernel; extractor (round received + 6); the table model (Babble.HG.buildTable / peersAtTbl) tied by correspondence.",
        "trusted_base": ["PeerSetCache and processAcceptedInternalTransactions are modelled by buildTable / peersAtTbl and tied by correspondence on real cores"],
        "assumptions": ["static application policy: the model applies every internal transaction of a block (the harness applications accept everything unless a request is marked refused, in which case the Go replay and the model skip it)"],
    },
    "C09": {
        "title": "Block signatures and anchor",
        "design_ref": "DESIGN.md §3 C09",
        "technique": "Lean 4 invariant proofs over a model of ProcessSigPool / SetAnchorBlock / commit signing (threshold and operators regenerated) + differential correspondence on adversarial pools + re-verification oracle",
        "level_text": "Proof (Lean 4) for the model: a signature is recorded on a block only if it is a pooled, well-formed signature for that block index by a member of the block's round set that verifies against the node's own body (recorded_only_valid); the anchor always designates a stored block with more recorded signers than TrustCount, i.e. more than a third of its round's validators, after any sequence of pool runs (processPool_inv, anchor_more_than_third); the anchor index never decreases (anchor_monotone_step); the node's own signature is placed only in commit, on the block just delivered, and only if it is a validator of that round (own_signature_on_commit). Signatures gossiped in events are attributed to the creator by the wire format (WireBlockSignature carries no validator). Tied to the code by injecting adversarial pools into real cores while they gossip with joins/leaves, comparing every ProcessSigPool run with the model and re-verifying every recorded signature with the real Verify.",
        "level_note": "Trusted: Lean kernel; extractor (anchor operators, TrustCount); validity / well-formedness / membership bits computed by the real code; the validator set of an existing block's round is fixed (C10).",
        "trusted_base": ["signature validity, well-formedness and membership are input bits from Block.Verify / keys.DecodeSignature / Store.GetPeerSet", "SigPool model tied to ProcessSigPool by correspondence (map iteration order: the result is order independent; compared as sets)"],
        "assumptions": ["ECDSA unforgeability; the state hash is part of the signed body (BlockBody.Hash covers StateHash)"],
    },
    "C17": {
        "title": "A node that is not babbling changes nothing; a suspended node still serves syncs",
        "design_ref": "DESIGN.md §3 C17",
        "technique": "Lean 4 proof about the RPC gate expression and the suspension rule regenerated from the Go AST + differential correspondence on real Node objects in every state",
        "level_text": "Proof (Lean 4): for the gate expression regenerated from processRPC a command is handled iff the node is Babbling or (Suspended and the command is a SyncRequest) (gated); mutating requests are refused in every non-babbling state, every request in CatchingUp/Joining/Leaving/Shutdown; the regenerated suspension rule fires iff undetermined-since-start > limit x validators or the node was removed and the last consensus round reached the removal round (suspend_rule). Tied to the code by driving real Node objects (inmem transport) through processRPC in every state and checkSuspend on nodes without quorum / removed validators, comparing with the model; refused requests and submissions must leave the DAG digest unchanged; suspended sync answers are compared with the exact difference. PARTIAL: overshoot of the threshold by concurrently running gossip goroutines is runtime.",
        "level_note": "Trusted: Lean kernel; extractor (gate expression, the four comparison operators and the shape of checkSuspend).",
        "trusted_base": ["the handlers behind the gate are exercised by the harness, not modelled (their effect on a non-babbling node is observed through a digest of known events, head, blocks, pools)"],
        "assumptions": [],
    },
    "C12": {
        "title": "Fast-sync acceptance",
        "design_ref": "DESIGN.md §3 C12",
        "technique": "Lean 4 proof of the acceptance decision (model assembled from check order, threshold and operator regenerated from the Go AST) + differential correspondence on tampered real responses + independent-recomputation oracle + node-level restore check",
        "level_text": "Proof (Lean 4): the model of core.checkFastForward accepts iff the response is structurally sound, both hashes match, strictly more than TrustCount DISTINCT members of the frame's peer set have a verifying signature and one of them is a validator the node already knows (ff_accept_iff); the same signer under any number of re-encoded keys counts once (valid_signers_distinct), every counted signer has a verifying entry; on the byte-level model of the decoders (Babble.ByteCodec, compared value for value with the Go functions) the case of the hexadecimal digits and the first two bytes of a key string never change what it decodes to, and a signature string can be re-spelled (upper case, leading zeros) without changing its value (key_spelling_case_irrelevant, key_spelling_prefix_irrelevant, signature_respelled): map keys and signature strings are not identities; any tampering that breaks a hashed relation is refused (ff_tamper_refused); nothing precedes the checks in core.fastForward and the application is restored only after them in Node.fastForward (ff_refused_is_noop, order regenerated from the source). The model is tied to the code by applying 29 single-field tamperings of real responses to fresh cores and comparing accept/refuse; refusals are checked to leave a digest of the node unchanged; the real Node.fastForward is run against a hostile serving peer.",
        "level_note": "Trusted: Lean kernel; extractor (check order, CheckBlock operator, TrustCount formula); hash equalities and signature validity are input bits from the real code (SHA-256 injectivity, ECDSA unforgeability).",
        "trusted_base": ["hash(frame)/hash(peer set) equality ⇔ content equality (SHA-256), signatures cover the block body (ECDSA)", "fast-forward model Babble.FF tied to core.fastForward by correspondence on tampered responses"],
        "assumptions": ["frame.Peers is duplicate free (it hashes to the block's peer-set hash, which was produced from a set built by WithNewPeer/WithRemovedPeer: C19)"],
    },
    "C14": {
        "title": "Fast-sync trust",
        "design_ref": "DESIGN.md §3 C14",
        "technique": "Lean 4 proof on the acceptance model (trusted-signer requirement regenerated from the Go AST) + forged-response harness",
        "level_text": "Proof (Lean 4): an accepted response has at least one verifying signer from a peer-set the node knows independently of the response (ff_needs_trusted_signer); a response signed only by strangers is refused however consistent internally (forged_set_refused); the trust check is present in the acceptance decision and consults the node's own peers, genesis peers and latest validator set (trust_check_present, regenerated from checkTrustedSigner). Tied to the code by forged, internally consistent responses (fresh keys, self-made set of 1-4 members, block signed by all of them) against fresh cores: always refused, digest unchanged; an honest response endorsed by known validators is still accepted.",
        "level_note": "Trusted: Lean kernel; extractor (presence and sources of the trusted-signer check); signature validity as input bits.",
        "trusted_base": ["the count of trusted valid signers is computed by the harness from the real peer sets of the victim core and the real signature verification"],
        "assumptions": ["the node's configured peers / genesis peers are themselves trustworthy (they are its root of trust)"],
    },
    "C08": {
        "title": "No network input can crash a node or alter its committed history",
        "design_ref": "DESIGN.md §3 C08",
        "technique": "Lean 4 totality proofs over a model of the validation layer with Go's partial operations explicit + differential correspondence of outcome classes + hostile-message harness on real Node objects",
        "level_text": "PARTIAL proof (Lean 4): in the model of the validation layer (hex / signature / public-key decoding, signature verification of internal transactions, events and blocks, sync-limit arithmetic; slicing and nil dereference explicit as a panic outcome) no input whatsoever reaches a panic (decode_total, signature_total, itx_verify_total, verify_total, sync_limit_total); the outcome classes of the two string decoders are proved to be exactly the successes and failures of the byte-level value model Babble.ByteCodec (hex_outcome_is_value_model, signature_outcome_is_value_model), which is compared with the Go decoders value for value. The model is tied to the code by comparing the outcome class ok|err|panic on a hostile value grammar. Not modelled (runtime): encoding/json, transport framing, goroutines, locks; covered by the harness: hostile Sync/EagerSync/Join/FastForward requests through Node.processRPC, hostile sync and fast-forward responses through core, each followed by a valid exchange and a comparison of delivered blocks.",
        "level_note": "Trusted: Lean kernel; decode model tied by correspondence; cryptographic validity and curve membership are input bits from the real code.",
        "trusted_base": ["decode model Babble.Decode tied to common.DecodeFromString / keys.DecodeSignature / keys.ToPublicKey / keys.Verify / InternalTransaction.Verify / processSyncRequest by outcome-class correspondence",
                         "encoding/json, net/rpc framing, goroutine scheduling and locking are exercised by the harness, not modelled"],
        "assumptions": ["hex.DecodeString, big.Int.SetString, elliptic.Unmarshal and ecdsa.Verify do not panic on non-nil arguments"],
    },
    "C16": {
        "title": "Store fidelity",
        "design_ref": "DESIGN.md §3 C16",
        "technique": "Lean 4 refinement proofs for RollingIndex and LRU (partial views of a plain map, bounded) + differential correspondence (exhaustive-small and random op sequences) + store-vs-reference oracle with Badger close/reopen",
        "level_text": "Proof (Lean 4) for the container models: after any sequence of Set attempts a RollingIndex of any size returns at index j exactly the latest item written at j or a TooLate/KeyNotFound answer consistent with its window (rolling_index_window), never more than size items (size>=2); after any sequence of Add/Get/Remove an LRU of any capacity returns only the latest value written for a key, holds no key twice and at most size entries. PARTIAL: the store itself (caches in front of the durable Badger map, key construction, close/reopen, listings) is not a theorem: it is decided by running the real InmemStore/BadgerStore under real gossip histories with caches from tiny to default and reopen at random points against a reference kept by the harness (events, blocks, rounds, frames, peer sets, roots, participant and topological listings; cache level and database level).",
        "level_note": "Trusted: Lean kernel; container models tied to src/common by correspondence (all sequences of length<=4 (5 thorough) over the interesting operations for sizes 1..4 + random); Badger durability and the JSON encoders are used as they are.",
        "trusted_base": ["container models Babble.Containers tied to common.RollingIndex / common.LRU by correspondence", "Badger (committed transactions are durable), encoding/json and ugorji codec as used by the store"],
        "assumptions": ["first index written to a RollingIndex is non-negative (participant indexes start at 0 after the C07 repair; the consensus cache counts from 0)"],
    },
    "C07": {
        "title": "Event admission",
        "design_ref": "DESIGN.md §3 C07",
        "technique": "Lean 4 invariant proof (admission invariant over all insertion attempts; coordinates = ancestry) on the operational model + differential correspondence with hostile event variations + invariant oracle on the real store",
        "level_text": "Proof (Lean 4) for the model: for every sequence of insertion attempts on a node started from genesis (valid events mixed with arbitrary others) every stored event has a verifying signature bit, a known creator, both parents present, self-parent = creator's latest event and index = its index + 1 (0 for a first event); hence no two events at one height, gap-free indexes, and the code's index arithmetic for ancestry equals reachability (ancestor_eq_reachability); a refused event leaves the state unchanged. The model's admission function is tied to InsertEvent by running both on valid DAGs with 14 kinds of hostile variations and comparing accept/reject and the rejection kind; the invariant is also evaluated on the real store after every attempt.",
        "level_note": "Trusted: Lean kernel; hand-written operational model tied by correspondence; event id = SHA-256 of the body (non-empty, injective) as hypotheses hid/hhash; signature validity is an input bit from the real Verify; nodes reset by fast-sync (chains starting at a root) are covered by correspondence only.",
        "trusted_base": ["the operational model Babble.HG (lean/Babble/Model/Hashgraph.lean), tied to src/hashgraph by correspondence on accept/reject kinds and consensus observations",
                         "signature validity as an input bit computed by the real Event.Verify (covers the event signature and every internal-transaction signature)"],
        "assumptions": ["event id = hash of the body: non-empty and injective on (creator, index) (SHA-256 collision freedom)", "ecdsa.Verify is sound (signature bit is an input)"],
    },
    "C01": {
        "title": "Agreement",
        "design_ref": "DESIGN.md §3 C01",
        "technique": "Lean 4 proofs: the DecideFame vote core (agreement, latch lemma) on generated operators, and its instantiation by the declarative tree model Babble.Dag of any fork-free history (fame agreement across nodes, latch soundness, equal famous sets) + differential correspondence of both Lean models (operational Babble.HG, declarative Babble.Dag) with the Go code + prefix-consistency oracle",
        "level_text": "PARTIAL proof (Lean 4): for Babble's exact tally rule (operators, supermajority formula, coin period regenerated from the Go AST) any two fame decisions agree and a late witness is never famous, for every n and every election; delivered blocks are append-only with consecutive indexes. For a static validator set the vote core is instantiated from any fork-free history (Babble.Dag: events as hash-linked trees; round, witness, Babble's coordinate strongly-see, votes and decisions defined as functions of the event alone and evaluated next to the Go code on every static view): any two deciders of a witness agree whichever nodes hold them (agreement_static_fame), a witness a node did not hold when it declared the round decided is never famous (latch_sound), and two nodes that both declared a round decided have the same famous witnesses (famous_sets_agree). Not proved: the refinement from the operational model (stored coordinates and tables) to the declarative one, round-received / frames as Lean theorems, and validator-set changes: decided by the correspondence of both models with the code on gossip DAGs (late witnesses, naps with piecewise catch-up, restricted gossip topologies) inserted in different orders into several real nodes, with a pairwise prefix-consistency oracle.",
        "level_note": "Trusted: Lean kernel; extractor (operators/thresholds); hand-written operational model tied by correspondence; fork-free histories (C07); static-set theorem only for the vote core.",
        "trusted_base": ["the operational model Babble.HG (lean/Babble/Model/Hashgraph.lean) is hand-written; it is tied to src/hashgraph by running both on the same gossip DAGs and comparing accept/reject, delivered blocks after every insertion, round/witness/lamport/round-received/fame tables, frames and peer sets",
                         "cryptography as input bits: signature validity from the real ecdsa.Verify, sort key = R of the signature, coin = middle byte of the hash; SHA-256 collision freedom (event identity = hash)",
                         "Go map iteration order is modelled by creation order; goroutine interleavings are not modelled (the hashgraph is driven sequentially, as under coreLock)"],
        "assumptions": ["no equivocation reaches two honest nodes (C07 makes a single node fork-free)", "signature sort keys distinct per frame (checked per trace)"],
    },
    "C02": {
        "title": "Finality",
        "design_ref": "DESIGN.md §3 C02",
        "technique": "Lean 4 invariant proofs over the operational hashgraph model (append-only blocks, consecutive indexes also after reset, strictly increasing round received through the round-table invariant RInv) + differential correspondence + delivery oracles (also with failing commit callbacks and Reset of used nodes)",
        "level_text": "Proof (Lean 4) for the model: every insertion attempt only appends to the delivered block list; indexes are consecutive from 0 (from the anchor after a reset) for every history of insertion attempts, any validator-set behaviour; one block per processed round numbered lastBlock+1; for a node started from genesis the round received of delivered blocks strictly increases (round_received_strictly_increasing: rounds are created contiguously, queued exactly once behind everything pending, the decided latch is never cleared, the queue is consumed from its head — a late witness never re-opens a processed round). PARTIAL: the same after a fast-sync reset, and 'the store keeps state hash / receipts', are decided by the oracles on the real code (store re-read after every run; Reset of nodes that already delivered blocks; commit callbacks that fail after applying a block), not by a theorem.",
        "level_note": "Trusted: Lean kernel; hand-written operational model tied by correspondence (blocks after every insertion compared).",
        "trusted_base": ["the operational model Babble.HG (lean/Babble/Model/Hashgraph.lean) is hand-written; it is tied to src/hashgraph by running both on the same gossip DAGs and comparing accept/reject, delivered blocks after every insertion, round/witness/lamport/round-received/fame tables, frames and peer sets",
                         "cryptography as input bits: signature validity from the real ecdsa.Verify, sort key = R of the signature, coin = middle byte of the hash; SHA-256 collision freedom (event identity = hash)",
                         "Go map iteration order is modelled by creation order; goroutine interleavings are not modelled (the hashgraph is driven sequentially, as under coreLock)"],
        "assumptions": [],
    },
    "C03": {
        "title": "Consensus output is a function of the DAG",
        "design_ref": "DESIGN.md §3 C03",
        "technique": "Lean 4 proofs: round / witness / strongly-see / votes / fame decisions are functions of the event tree alone (Babble.Dag, build_ok), fame independent of the decider, canonical frame order and median timestamp + differential correspondence of both Lean models with the Go code over orders / sub-DAGs / stores / cache sizes / batchings",
        "level_text": "PARTIAL proof (Lean 4): the committed order of a frame and the block timestamp are independent of reception / enumeration order (canonical sort, median); the non-delivering passes never touch output. For a static validator set, round / witness flag / strongly-see / votes / fame decisions are, on the declarative model Babble.Dag (compared with the Go code on every static view), functions of the event's hash-linked ancestry alone: two evaluations over different event sets in different orders give the same record (values_depend_on_the_event_only), and fame does not depend on the decider. Lamport timestamps, round-received and the same statement for the operational model are decided by the correspondence run: one DAG, several topological orders, downward-closed sub-DAGs, inmem/Badger, cache sizes, batchings, each compared with the Lean model and with each other.",
        "level_note": "Trusted: Lean kernel; hand-written operational model tied by correspondence; cache sizes at or above the in-flight window.",
        "trusted_base": ["the operational model Babble.HG (lean/Babble/Model/Hashgraph.lean) is hand-written; it is tied to src/hashgraph by running both on the same gossip DAGs and comparing accept/reject, delivered blocks after every insertion, round/witness/lamport/round-received/fame tables, frames and peer sets",
                         "cryptography as input bits: signature validity from the real ecdsa.Verify, sort key = R of the signature, coin = middle byte of the hash; SHA-256 collision freedom (event identity = hash)",
                         "Go map iteration order is modelled by creation order; goroutine interleavings are not modelled (the hashgraph is driven sequentially, as under coreLock)"],
        "assumptions": ["cache size >= in-flight window (below it the store returns errors: outside the property's range)"],
    },
    "C04": {
        "title": "Committed order extends causality",
        "design_ref": "DESIGN.md §3 C04",
        "technique": "Lean 4 proofs about the frame order and block payload of the operational model + differential correspondence + causality oracle",
        "level_text": "Proof (Lean 4) for the model: block payload = concatenation of the frame events' payloads in committed order; frame order sorted by (Lamport, key), complete and canonical; Lamport timestamps strictly exceed the parents'; so inside a frame ancestors come first. PARTIAL: monotonicity of round received along ancestry (across frames) and at-most-once commitment are decided by the oracle on the real code.",
        "level_note": "Trusted: Lean kernel; hand-written operational model tied by correspondence; distinct signature sort keys (checked per trace).",
        "trusted_base": ["the operational model Babble.HG (lean/Babble/Model/Hashgraph.lean) is hand-written; it is tied to src/hashgraph by running both on the same gossip DAGs and comparing accept/reject, delivered blocks after every insertion, round/witness/lamport/round-received/fame tables, frames and peer sets",
                         "cryptography as input bits: signature validity from the real ecdsa.Verify, sort key = R of the signature, coin = middle byte of the hash; SHA-256 collision freedom (event identity = hash)",
                         "Go map iteration order is modelled by creation order; goroutine interleavings are not modelled (the hashgraph is driven sequentially, as under coreLock)"],
        "assumptions": ["signature sort keys distinct for events with equal Lamport timestamps"],
    },
    "C18": {
        "title": "Block timestamps are Byzantine-tolerant medians",
        "design_ref": "DESIGN.md §3 C18",
        "technique": "Lean 4 proof over a model of common.Median (int64 semantics) + differential correspondence with the Go code",
        "level_text": "Proof (Lean 4): median_between / block_timestamp_bounded hold for every list of int64 timestamps and every strict minority of liars, "
                      "for the executable model median64 of common.Median (wrap-around and truncating division included); the model is tied to the code by "
                      "running common.Median and the model on the same random/extreme lists, and the block timestamp is tied to the median of the famous "
                      "witnesses by hashgraph runs with lying clocks, half of them long busy runs in which an honest clock runs fast and is corrected (later medians below earlier block timestamps).",
        "level_note": "Trusted: Lean kernel; correspondence harness; honest range assumed within +-2^62 (no int64 overflow of a sum of two honest timestamps).",
        "trusted_base": ["sort.Slice sorts (Go stdlib)", "model of int64 addition: wrap modulo 2^64; model of Go '/' : Int.tdiv"],
        "assumptions": ["honest timestamps lie in [-2^62, 2^62) so that the sum of two honest values does not overflow int64 (Unix nanoseconds do)"],
    },
    "C19": {
        "title": "Quorum thresholds",
        "design_ref": "DESIGN.md §3 C19",
        "technique": "Lean 4 proof about threshold formulas regenerated from the Go AST + exhaustive correspondence n=0..100000",
        "level_text": "Proof (Lean 4): sm_least, trusted_needs_more_than_third, two_supermajorities_intersect, supermajority_has_honest_majority, "
                      "trusted_has_honest_signer, len_after_ops hold for every n / every finite validator type / every add-remove sequence, about the "
                      "definitions regenerated on every run from src/peers/peer_set.go; the float ceil and the real PeerSet are tied to the generated "
                      "definitions exhaustively for n=0..100000.",
        "level_note": "Trusted: Lean kernel; the extractor's translation of `2*Len()/3+1` and `int(math.Ceil(float64(Len())/float64(3)))` (ceilDiv) — validated exhaustively for n<=100000 against the real code; FNV-32 peer ids distinct.",
        "trusted_base": ["float64 ceil of n/3 equals integer ceilDiv for n <= 100000 (checked exhaustively on every run)"],
        "assumptions": ["peer ids (FNV-32 of the public key) are distinct for distinct keys"],
    },
}

# amendments to the level texts (theorems added after the texts above were written)
def _amend(pid, old, new):
    assert old in PROPS[pid]["level_text"], (pid, old[:40])
    PROPS[pid]["level_text"] = PROPS[pid]["level_text"].replace(old, new, 1)

_amend("C04", "so inside a frame ancestors come first. PARTIAL: monotonicity of round received along ancestry (across frames) and at-most-once commitment are decided by the oracle on the real code.",
       "so inside a frame ancestors come first; for every insertion history of events with distinct ids into a node started from genesis no delivered block lists an event twice and no two delivered blocks share an event (every_event_committed_at_most_once: the received lists of the rounds stay duplicate-free and pairwise disjoint through every pass). On the operational model, for every insertion history of fresh events into a node started from genesis: every stored event has a Lamport timestamp, the parents it names are stored and their timestamps are strictly smaller, hence a proper ancestor always has a strictly smaller timestamp (lamport_increases_along_parents, lamport_respects_ancestry_operational; lamport_respects_reachability states it with the reachability relation that C07 proves equal to the Go ancestor predicate); in any state satisfying that invariant (all reachable states and the intermediate states of the passes) an event of the sorted frame that is a proper ancestor of another comes first (frame_order_extends_ancestry, lamport_invariant_reachable_and_kept); and an event that has a round received has a round strictly below it (round_received_above_round). On the declarative model Babble.Dag (static set, compared with the Go code on every view): an ancestor has a strictly smaller Lamport timestamp and is received in the same or an earlier round.")
_amend("C14", "signed only by strangers is refused however consistent internally (forged_set_refused);",
       "signed only by strangers is refused however consistent internally (forged_set_refused), in every state a node can reach from its configuration through join responses with any claimed peer list, consensus receipts, fast-forward responses and other messages (strangers_never_adopted, model Babble.Trust: the three sets only ever hold keys that were configured, put there by consensus, or members of the frame of an accepted response; tied to the code by the writer sets of core.peers / genesisPeers / validators and by join-then-fast-forward histories run on both sides);")
_amend("C19", "Proof (Lean 4): sm_least, trusted_needs_more_than_third, two_supermajorities_intersect,",
       "Proof (Lean 4): sm_least, trusted_needs_more_than_third, supermajority_sites_accept_iff (every site of the consensus code that compares a count with the supermajority — strongly-see, round, normal and coin vote, round decided, round received — accepts exactly the counts above 2n/3; the comparison operator of each site is regenerated from its source), trust_sites_need_more_than_third, two_supermajorities_intersect,")
_amend("C19", "the float ceil and the real PeerSet are tied to the generated definitions exhaustively for n=0..100000.",
       "the float ceil and the real PeerSet are tied to the generated definitions exhaustively for n=0..100000; the decisions that use the thresholds are exercised by hashgraphs built against the fame election (split votes, coin rounds, counts of exactly the supermajority, a decider delivered late) on several real nodes, which must decide the same fame and deliver the same blocks.")
_amend("C03", "and fame does not depend on the decider.",
       "and fame does not depend on the decider. On the operational model (any validator-set behaviour): whatever round, witness flag, Lamport timestamp, round received or fame an event has at some moment of an insertion history, it has after every continuation (assigned_values_are_final, fame_decisions_are_final); every stored event has a round, and it is at least the round of each parent (rounds_never_decrease_along_parents); a stored witness has a round strictly above its self-parent's (witness_round_above_self_parent), and two stored witnesses of one creator in one round are the same event (one_witness_per_creator_and_round).")
_amend("C06", "ProcessDecidedRounds consumes a decided round at the head of the queue.",
       "ProcessDecidedRounds consumes a decided round at the head of the queue; the PendingLoadedEvents counter behind busy() goes up by one per loaded insertion, is left alone by DivideRounds, DecideFame and DecideRoundReceived and comes down only by the loaded events of a processed frame (busy_counter_follows_the_events, operational model; the Go counter is compared with it after every insertion).")
_amend("C05", "every committed transaction comes from an event of the frame (C04).",
       "every committed transaction comes from an event of the frame (C04), and no event is committed twice on a node (no_event_payload_committed_twice, operational model).")

# Properties not (yet) claimed. Kept current by hand; see DESIGN.md.
_ALL = ["C%02d" % i for i in range(1, 21)]
_PENDING_REASON = "check not built yet in this revision of the framework (planned; see DESIGN.md §7) — not a claim that the technique cannot apply"
NOT_APPLICABLE = [{"property_id": p, "reason": _PENDING_REASON} for p in _ALL if p not in PROPS]
