"""Per-property configuration shared by ./check and ./mkmanifest."""

TRUSTED_COMMON = [
    "Lean 4.33 kernel (thorough tier: leanchecker re-check of the compiled module); axioms allowed: propext, Classical.choice, Quot.sound",
    "extract/ (go/ast pattern translation of the quorum sites, constants, RPC gate, fast-forward step order) -> lean/Babble/Generated.lean",
    "harness/ + lean driver + comparison of canonicalised observations (the correspondence check)",
]

PROPS = {
    "C13": {
        "title": "Fast-sync continuity",
        "design_ref": "DESIGN.md §3 C13",
        "technique": "exact operational Lean model of Reset / InsertFrameEvent / lower bound tied by differential correspondence + continuity oracle (hashgraph level and real cores); Lean theorems on the block-index base after reset",
        "level_text": "PARTIAL proof (Lean 4): after a reset the delivered indexes continue consecutively from the anchor (block_indexes_consecutive_after_reset, C02) and the passes keep the append-only / output-table invariants; the unconditional continuity statement is NOT a theorem (it is false for some histories: see the recorded finding). It is decided by the correspondence of the exact operational model (Reset, InsertFrameEvent, round lower bound, missing rounds, validator-set history shipped with the frame) with the code, and by the oracle: for every anchor of every run a node reset from the full node's block + frame (through JSON) and fed the rest of the history must deliver the full node's blocks (body hash) and validator-set table; frames of one round computed by nodes with different insertion orders must be identical; the same on real cores fast-forwarding at a moment where a membership change is pending.",
        "level_note": "Trusted: hand-written operational model tied by correspondence; Lean kernel for the index theorems. Known finding: events of a lagging creator older than the root window (ROOT_DEPTH) get a different round on a reset node.",
        "trusted_base": ["operational model Babble.HG (resetFrom, insertFrameEvent, rrLoop with lower bound) tied to Hashgraph.Reset by correspondence"],
        "assumptions": ["the reset node can insert the events it receives (property's own proviso)"],
    },
    "C10": {
        "title": "Validator-set history is a replayable function of the committed blocks",
        "design_ref": "DESIGN.md §3 C10",
        "technique": "Lean 4 proof that the validator-set table built by the commit callback equals the replay specification (activation delay regenerated) + differential correspondence and independent replay oracle on real cores",
        "level_text": "Proof (Lean 4): for every genesis set and every sequence of committed blocks with strictly increasing round received (C02), the set PeerSetCache.Get returns for round r is the genesis set modified in block order by exactly the accepted receipts of the blocks with round received + 6 <= r (table_is_replay), the node's latest validator set is the full replay, committing a block never changes the set of a round below its round received + 6 (change_never_retroactive), the operational model's commit callback is one step of that table construction and a block's peer list is the table's set at its round received. Tied to the code by G2 runs with successive / simultaneous / refused joins, leave, re-join and a late joiner: every member's GetPeerSet(r) vs the Lean table and vs an independent Go replay of its delivered blocks; PeersHash of every block; histories across members. PARTIAL: values memoised before an entry existed (the R+6 assumption) are covered by the C01 oracle, not by a theorem.",
        "level_note": "Trusted: Lean kernel; extractor (round received + 6); the table model (Babble.HG.buildTable / peersAtTbl) tied by correspondence.",
        "trusted_base": ["PeerSetCache and processAcceptedInternalTransactions are modelled by buildTable / peersAtTbl and tied by correspondence on real cores"],
        "assumptions": ["delivered blocks have strictly increasing, non-negative round received (C02: checked by the C02 oracle; proved for indexes, not yet for round received)"],
    },
    "C09": {
        "title": "Block signatures and anchor",
        "design_ref": "DESIGN.md §3 C09",
        "technique": "Lean 4 invariant proofs over a model of ProcessSigPool / SetAnchorBlock / commit signing (threshold and operators regenerated) + differential correspondence on adversarial pools + re-verification oracle",
        "level_text": "Proof (Lean 4) for the model: a signature is recorded on a block only if it is a pooled, well-formed signature for that block index by a member of the block's round set that verifies against the node's own body (recorded_only_valid); the anchor always designates a stored block with more recorded signers than TrustCount, i.e. more than a third of its round's validators, after any sequence of pool runs (processPool_inv, anchor_more_than_third); the anchor index never decreases (anchor_monotone_step); the node's own signature is placed only in commit, on the block just delivered, and only if it is a validator of that round (own_signature_on_commit). Signatures gossiped in events are attributed to the creator by the wire format (WireBlockSignature carries no validator). Tied to the code by injecting adversarial pools into real cores while they gossip with joins/leaves, comparing every ProcessSigPool run with the model and re-verifying every recorded signature with the real Verify.",
        "level_note": "Trusted: Lean kernel; extractor (anchor operators, TrustCount); validity / well-formedness / membership bits computed by the real code; the validator set of an existing block's round is fixed (C10).",
        "trusted_base": ["signature validity, well-formedness and membership are input bits from Block.Verify / keys.DecodeSignature / Store.GetPeerSet", "SigPool model tied to ProcessSigPool by correspondence (map iteration order: the result is order independent; compared as sets)"],
        "assumptions": ["ECDSA unforgeability; the state hash is part of the signed body (BlockBody.Hash covers StateHash)"],
    },
    "C17": {
        "title": "A node that is not babbling changes nothing; a suspended node still serves syncs",
        "design_ref": "DESIGN.md §3 C17",
        "technique": "Lean 4 proof about the RPC gate expression and the suspension rule regenerated from the Go AST + differential correspondence on real Node objects in every state",
        "level_text": "Proof (Lean 4): for the gate expression regenerated from processRPC a command is handled iff the node is Babbling or (Suspended and the command is a SyncRequest) (gated); mutating requests are refused in every non-babbling state, every request in CatchingUp/Joining/Leaving/Shutdown; the regenerated suspension rule fires iff undetermined-since-start > limit x validators or the node was removed and the last consensus round reached the removal round (suspend_rule). Tied to the code by driving real Node objects (inmem transport) through processRPC in every state and checkSuspend on nodes without quorum / removed validators, comparing with the model; refused requests and submissions must leave the DAG digest unchanged; suspended sync answers are compared with the exact difference. PARTIAL: overshoot of the threshold by concurrently running gossip goroutines is runtime.",
        "level_note": "Trusted: Lean kernel; extractor (gate expression, the four comparison operators and the shape of checkSuspend).",
        "trusted_base": ["the handlers behind the gate are exercised by the harness, not modelled (their effect on a non-babbling node is observed through a digest of known events, head, blocks, pools)"],
        "assumptions": [],
    },
    "C12": {
        "title": "Fast-sync acceptance",
        "design_ref": "DESIGN.md §3 C12",
        "technique": "Lean 4 proof of the acceptance decision (model assembled from check order, threshold and operator regenerated from the Go AST) + differential correspondence on tampered real responses + independent-recomputation oracle + node-level restore check",
        "level_text": "Proof (Lean 4): the model of core.checkFastForward accepts iff the response is structurally sound, both hashes match, strictly more than TrustCount DISTINCT members of the frame's peer set have a verifying signature and one of them is a validator the node already knows (ff_accept_iff); the same signer under any number of re-encoded keys counts once (valid_signers_distinct), every counted signer has a verifying entry; any tampering that breaks a hashed relation is refused (ff_tamper_refused); nothing precedes the checks in core.fastForward and the application is restored only after them in Node.fastForward (ff_refused_is_noop, order regenerated from the source). The model is tied to the code by applying 29 single-field tamperings of real responses to fresh cores and comparing accept/refuse; refusals are checked to leave a digest of the node unchanged; the real Node.fastForward is run against a hostile serving peer.",
        "level_note": "Trusted: Lean kernel; extractor (check order, CheckBlock operator, TrustCount formula); hash equalities and signature validity are input bits from the real code (SHA-256 injectivity, ECDSA unforgeability).",
        "trusted_base": ["hash(frame)/hash(peer set) equality ⇔ content equality (SHA-256), signatures cover the block body (ECDSA)", "fast-forward model Babble.FF tied to core.fastForward by correspondence on tampered responses"],
        "assumptions": ["frame.Peers is duplicate free (it hashes to the block's peer-set hash, which was produced from a set built by WithNewPeer/WithRemovedPeer: C19)"],
    },
    "C14": {
        "title": "Fast-sync trust",
        "design_ref": "DESIGN.md §3 C14",
        "technique": "Lean 4 proof on the acceptance model (trusted-signer requirement regenerated from the Go AST) + forged-response harness",
        "level_text": "Proof (Lean 4): an accepted response has at least one verifying signer from a peer-set the node knows independently of the response (ff_needs_trusted_signer); a response signed only by strangers is refused however consistent internally (forged_set_refused); the trust check is present in the acceptance decision and consults the node's own peers, genesis peers and latest validator set (trust_check_present, regenerated from checkTrustedSigner). Tied to the code by forged, internally consistent responses (fresh keys, self-made set of 1-4 members, block signed by all of them) against fresh cores: always refused, digest unchanged; an honest response endorsed by known validators is still accepted.",
        "level_note": "Trusted: Lean kernel; extractor (presence and sources of the trusted-signer check); signature validity as input bits.",
        "trusted_base": ["the count of trusted valid signers is computed by the harness from the real peer sets of the victim core and the real signature verification"],
        "assumptions": ["the node's configured peers / genesis peers are themselves trustworthy (they are its root of trust)"],
    },
    "C08": {
        "title": "No network input can crash a node or alter its committed history",
        "design_ref": "DESIGN.md §3 C08",
        "technique": "Lean 4 totality proofs over a model of the validation layer with Go's partial operations explicit + differential correspondence of outcome classes + hostile-message harness on real Node objects",
        "level_text": "PARTIAL proof (Lean 4): in the model of the validation layer (hex / signature / public-key decoding, signature verification of internal transactions, events and blocks, sync-limit arithmetic; slicing and nil dereference explicit as a panic outcome) no input whatsoever reaches a panic (decode_total, signature_total, itx_verify_total, verify_total, sync_limit_total). The model is tied to the code by comparing the outcome class ok|err|panic on a hostile value grammar. Not modelled (runtime): encoding/json, transport framing, goroutines, locks; covered by the harness: hostile Sync/EagerSync/Join/FastForward requests through Node.processRPC, hostile sync and fast-forward responses through core, each followed by a valid exchange and a comparison of delivered blocks.",
        "level_note": "Trusted: Lean kernel; decode model tied by correspondence; cryptographic validity and curve membership are input bits from the real code.",
        "trusted_base": ["decode model Babble.Decode tied to common.DecodeFromString / keys.DecodeSignature / keys.ToPublicKey / keys.Verify / InternalTransaction.Verify / processSyncRequest by outcome-class correspondence",
                         "encoding/json, net/rpc framing, goroutine scheduling and locking are exercised by the harness, not modelled"],
        "assumptions": ["hex.DecodeString, big.Int.SetString, elliptic.Unmarshal and ecdsa.Verify do not panic on non-nil arguments"],
    },
    "C16": {
        "title": "Store fidelity",
        "design_ref": "DESIGN.md §3 C16",
        "technique": "Lean 4 refinement proofs for RollingIndex and LRU (partial views of a plain map, bounded) + differential correspondence (exhaustive-small and random op sequences) + store-vs-reference oracle with Badger close/reopen",
        "level_text": "Proof (Lean 4) for the container models: after any sequence of Set attempts a RollingIndex of any size returns at index j exactly the latest item written at j or a TooLate/KeyNotFound answer consistent with its window (rolling_index_window), never more than size items (size>=2); after any sequence of Add/Get/Remove an LRU of any capacity returns only the latest value written for a key, holds no key twice and at most size entries. PARTIAL: the store itself (caches in front of the durable Badger map, key construction, close/reopen, listings) is not a theorem: it is decided by running the real InmemStore/BadgerStore under real gossip histories with caches from tiny to default and reopen at random points against a reference kept by the harness (events, blocks, rounds, frames, peer sets, roots, participant and topological listings; cache level and database level).",
        "level_note": "Trusted: Lean kernel; container models tied to src/common by correspondence (all sequences of length<=4 (5 thorough) over the interesting operations for sizes 1..4 + random); Badger durability and the JSON encoders are used as they are.",
        "trusted_base": ["container models Babble.Containers tied to common.RollingIndex / common.LRU by correspondence", "Badger (committed transactions are durable), encoding/json and ugorji codec as used by the store"],
        "assumptions": ["first index written to a RollingIndex is non-negative (participant indexes start at 0 after the C07 repair; the consensus cache counts from 0)"],
    },
    "C07": {
        "title": "Event admission",
        "design_ref": "DESIGN.md §3 C07",
        "technique": "Lean 4 invariant proof (admission invariant over all insertion attempts; coordinates = ancestry) on the operational model + differential correspondence with hostile event variations + invariant oracle on the real store",
        "level_text": "Proof (Lean 4) for the model: for every sequence of insertion attempts on a node started from genesis (valid events mixed with arbitrary others) every stored event has a verifying signature bit, a known creator, both parents present, self-parent = creator's latest event and index = its index + 1 (0 for a first event); hence no two events at one height, gap-free indexes, and the code's index arithmetic for ancestry equals reachability (ancestor_eq_reachability); a refused event leaves the state unchanged. The model's admission function is tied to InsertEvent by running both on valid DAGs with 14 kinds of hostile variations and comparing accept/reject and the rejection kind; the invariant is also evaluated on the real store after every attempt.",
        "level_note": "Trusted: Lean kernel; hand-written operational model tied by correspondence; event id = SHA-256 of the body (non-empty, injective) as hypotheses hid/hhash; signature validity is an input bit from the real Verify; nodes reset by fast-sync (chains starting at a root) are covered by correspondence only.",
        "trusted_base": ["the operational model Babble.HG (lean/Babble/Model/Hashgraph.lean), tied to src/hashgraph by correspondence on accept/reject kinds and consensus observations",
                         "signature validity as an input bit computed by the real Event.Verify (covers the event signature and every internal-transaction signature)"],
        "assumptions": ["event id = hash of the body: non-empty and injective on (creator, index) (SHA-256 collision freedom)", "ecdsa.Verify is sound (signature bit is an input)"],
    },
    "C01": {
        "title": "Agreement",
        "design_ref": "DESIGN.md §3 C01",
        "technique": "Lean 4 proof of the DecideFame vote core (agreement of decisions, latch lemma) on generated operators + differential correspondence of an exact operational model + prefix-consistency oracle",
        "level_text": "PARTIAL proof (Lean 4): for Babble's exact tally rule (operators, supermajority formula, coin period regenerated from the Go AST) any two fame decisions agree and a late witness is never famous, for every n and every election; delivered blocks are append-only with consecutive indexes. The instantiation of the vote core from two nodes' views (agreement_static) and validator-set changes are not proved: they are decided by the correspondence of the exact operational model with the code on gossip DAGs inserted in different orders into several real nodes, with a pairwise prefix-consistency oracle.",
        "level_note": "Trusted: Lean kernel; extractor (operators/thresholds); hand-written operational model tied by correspondence; fork-free histories (C07); static-set theorem only for the vote core.",
        "trusted_base": ["the operational model Babble.HG (lean/Babble/Model/Hashgraph.lean) is hand-written; it is tied to src/hashgraph by running both on the same gossip DAGs and comparing accept/reject, delivered blocks after every insertion, round/witness/lamport/round-received/fame tables, frames and peer sets",
                         "cryptography as input bits: signature validity from the real ecdsa.Verify, sort key = R of the signature, coin = middle byte of the hash; SHA-256 collision freedom (event identity = hash)",
                         "Go map iteration order is modelled by creation order; goroutine interleavings are not modelled (the hashgraph is driven sequentially, as under coreLock)"],
        "assumptions": ["no equivocation reaches two honest nodes (C07 makes a single node fork-free)", "signature sort keys distinct per frame (checked per trace)"],
    },
    "C02": {
        "title": "Finality",
        "design_ref": "DESIGN.md §3 C02",
        "technique": "Lean 4 invariant proofs over the operational hashgraph model (append-only blocks, consecutive indexes, also after reset) + differential correspondence + delivery oracles",
        "level_text": "Proof (Lean 4) for the model: every insertion attempt only appends to the delivered block list; indexes are consecutive from 0 (from the anchor after a reset) for every history of insertion attempts, any validator-set behaviour; one block per processed round numbered lastBlock+1. PARTIAL: 'round-received strictly increasing' and 'store keeps state hash/receipts' are decided by the oracle on the real code (store re-read after every run), not yet by a theorem.",
        "level_note": "Trusted: Lean kernel; hand-written operational model tied by correspondence (blocks after every insertion compared).",
        "trusted_base": ["the operational model Babble.HG (lean/Babble/Model/Hashgraph.lean) is hand-written; it is tied to src/hashgraph by running both on the same gossip DAGs and comparing accept/reject, delivered blocks after every insertion, round/witness/lamport/round-received/fame tables, frames and peer sets",
                         "cryptography as input bits: signature validity from the real ecdsa.Verify, sort key = R of the signature, coin = middle byte of the hash; SHA-256 collision freedom (event identity = hash)",
                         "Go map iteration order is modelled by creation order; goroutine interleavings are not modelled (the hashgraph is driven sequentially, as under coreLock)"],
        "assumptions": [],
    },
    "C03": {
        "title": "Consensus output is a function of the DAG",
        "design_ref": "DESIGN.md §3 C03",
        "technique": "Lean 4 proofs of order-independence of frame order and timestamp + differential correspondence over orders / sub-DAGs / stores / cache sizes / batchings",
        "level_text": "PARTIAL proof (Lean 4): the committed order of a frame and the block timestamp are independent of reception / enumeration order (canonical sort, median); the non-delivering passes never touch output. The order-independence of round/witness/lamport/fame/round-received themselves is decided by the correspondence run: one DAG, several topological orders, downward-closed sub-DAGs, inmem/Badger, cache sizes, batchings, each compared with the Lean model and with each other.",
        "level_note": "Trusted: Lean kernel; hand-written operational model tied by correspondence; cache sizes at or above the in-flight window.",
        "trusted_base": ["the operational model Babble.HG (lean/Babble/Model/Hashgraph.lean) is hand-written; it is tied to src/hashgraph by running both on the same gossip DAGs and comparing accept/reject, delivered blocks after every insertion, round/witness/lamport/round-received/fame tables, frames and peer sets",
                         "cryptography as input bits: signature validity from the real ecdsa.Verify, sort key = R of the signature, coin = middle byte of the hash; SHA-256 collision freedom (event identity = hash)",
                         "Go map iteration order is modelled by creation order; goroutine interleavings are not modelled (the hashgraph is driven sequentially, as under coreLock)"],
        "assumptions": ["cache size >= in-flight window (below it the store returns errors: outside the property's range)"],
    },
    "C04": {
        "title": "Committed order extends causality",
        "design_ref": "DESIGN.md §3 C04",
        "technique": "Lean 4 proofs about the frame order and block payload of the operational model + differential correspondence + causality oracle",
        "level_text": "Proof (Lean 4) for the model: block payload = concatenation of the frame events' payloads in committed order; frame order sorted by (Lamport, key), complete and canonical; Lamport timestamps strictly exceed the parents'; so inside a frame ancestors come first. PARTIAL: monotonicity of round received along ancestry (across frames) and at-most-once commitment are decided by the oracle on the real code.",
        "level_note": "Trusted: Lean kernel; hand-written operational model tied by correspondence; distinct signature sort keys (checked per trace).",
        "trusted_base": ["the operational model Babble.HG (lean/Babble/Model/Hashgraph.lean) is hand-written; it is tied to src/hashgraph by running both on the same gossip DAGs and comparing accept/reject, delivered blocks after every insertion, round/witness/lamport/round-received/fame tables, frames and peer sets",
                         "cryptography as input bits: signature validity from the real ecdsa.Verify, sort key = R of the signature, coin = middle byte of the hash; SHA-256 collision freedom (event identity = hash)",
                         "Go map iteration order is modelled by creation order; goroutine interleavings are not modelled (the hashgraph is driven sequentially, as under coreLock)"],
        "assumptions": ["signature sort keys distinct for events with equal Lamport timestamps"],
    },
    "C18": {
        "title": "Block timestamps are Byzantine-tolerant medians",
        "design_ref": "DESIGN.md §3 C18",
        "technique": "Lean 4 proof over a model of common.Median (int64 semantics) + differential correspondence with the Go code",
        "level_text": "Proof (Lean 4): median_between / block_timestamp_bounded hold for every list of int64 timestamps and every strict minority of liars, "
                      "for the executable model median64 of common.Median (wrap-around and truncating division included); the model is tied to the code by "
                      "running common.Median and the model on the same random/extreme lists, and the block timestamp is tied to the median of the famous "
                      "witnesses by hashgraph runs with lying clocks.",
        "level_note": "Trusted: Lean kernel; correspondence harness; honest range assumed within +-2^62 (no int64 overflow of a sum of two honest timestamps).",
        "trusted_base": ["sort.Slice sorts (Go stdlib)", "model of int64 addition: wrap modulo 2^64; model of Go '/' : Int.tdiv"],
        "assumptions": ["honest timestamps lie in [-2^62, 2^62) so that the sum of two honest values does not overflow int64 (Unix nanoseconds do)"],
    },
    "C19": {
        "title": "Quorum thresholds",
        "design_ref": "DESIGN.md §3 C19",
        "technique": "Lean 4 proof about threshold formulas regenerated from the Go AST + exhaustive correspondence n=0..100000",
        "level_text": "Proof (Lean 4): sm_least, trusted_needs_more_than_third, two_supermajorities_intersect, supermajority_has_honest_majority, "
                      "trusted_has_honest_signer, len_after_ops hold for every n / every finite validator type / every add-remove sequence, about the "
                      "definitions regenerated on every run from src/peers/peer_set.go; the float ceil and the real PeerSet are tied to the generated "
                      "definitions exhaustively for n=0..100000.",
        "level_note": "Trusted: Lean kernel; the extractor's translation of `2*Len()/3+1` and `int(math.Ceil(float64(Len())/float64(3)))` (ceilDiv) — validated exhaustively for n<=100000 against the real code; FNV-32 peer ids distinct.",
        "trusted_base": ["float64 ceil of n/3 equals integer ceilDiv for n <= 100000 (checked exhaustively on every run)"],
        "assumptions": ["peer ids (FNV-32 of the public key) are distinct for distinct keys"],
    },
}

# Properties not (yet) claimed. Kept current by hand; see DESIGN.md.
_ALL = ["C%02d" % i for i in range(1, 21)]
_PENDING_REASON = "check not built yet in this revision of the framework (planned; see DESIGN.md §7) — not a claim that the technique cannot apply"
NOT_APPLICABLE = [{"property_id": p, "reason": _PENDING_REASON} for p in _ALL if p not in PROPS]
