"""Which functions of the repository each property's model mirrors (patterns over the keys of
fingerprint: "relative/path.go:Recv.Func", fnmatch syntax).  ./check compares their normalised
source with /verif/fingerprints.json; a difference breaks the tie between the hand-written model
and the code for that property."""

HG = "src/hashgraph/hashgraph.go:Hashgraph."
CORE = [HG + f for f in (
    "ancestor", "_ancestor", "see", "stronglySee", "_stronglySee", "round", "_round", "witness", "_witness",
    "lamportTimestamp", "_lamportTimestamp", "initEventCoordinates", "updateAncestorFirstDescendant",
    "InsertEventAndRunConsensus", "DivideRounds", "DecideFame", "DecideRoundReceived", "ProcessDecidedRounds",
    "GetFrame", "createFrameEvent", "createRoot", "setLastConsensusRound")] + [
    "src/hashgraph/hashgraph.go:middleBit",
    "src/hashgraph/roundInfo.go:RoundInfo.AddCreatedEvent", "src/hashgraph/roundInfo.go:RoundInfo.AddReceivedEvent",
    "src/hashgraph/roundInfo.go:RoundInfo.SetFame", "src/hashgraph/roundInfo.go:RoundInfo.WitnessesDecided",
    "src/hashgraph/roundInfo.go:RoundInfo.Witnesses", "src/hashgraph/roundInfo.go:RoundInfo.FamousWitnesses",
    "src/hashgraph/roundInfo.go:RoundInfo.IsDecided",
    "src/hashgraph/caches.go:PendingRoundsCache.*", "src/hashgraph/caches.go:OrderedPendingRounds.Less",
    "src/hashgraph/caches.go:PeerSetCache.Set", "src/hashgraph/caches.go:PeerSetCache.Get",
    "src/hashgraph/frame.go:Frame.SortedFrameEvents", "src/hashgraph/event.go:SortedFrameEvents.Less",
    "src/hashgraph/block.go:NewBlockFromFrame", "src/hashgraph/block.go:NewBlock",
    "src/peers/peer_set.go:PeerSet.SuperMajority", "src/peers/peer_set.go:PeerSet.TrustCount",
    "src/common/median.go:*",
]
ADMISSION = [HG + f for f in ("InsertEvent", "checkSelfParent", "checkOtherParent", "checkIndex", "ReadWireInfo", "SetWireInfo")] + [
    "src/hashgraph/event.go:Event.Verify", "src/hashgraph/internal_transaction.go:InternalTransaction.Verify",
    "src/hashgraph/event.go:EventBody.Hash", "src/hashgraph/event.go:Event.Hash",
]
NC = "src/node/core.go:core."
POOL = [NC + f for f in ("addSelfEvent", "signAndInsertSelfEvent", "insertEventAndRunConsensus", "addTransactions", "addInternalTransaction")]
SYNC = [NC + f for f in ("sync", "recordHeads", "busy", "eventDiff", "knownEvents", "toWire")]
COMMIT = [NC + f for f in ("commit", "signBlock", "processAcceptedInternalTransactions", "processSigPool")]
FF = [NC + f for f in ("fastForward", "checkFastForward", "checkTrustedSigner", "getAnchorBlockWithFrame")] + [
    "src/node/core.go:checkFastForwardInput",
    HG + "CheckBlock", HG + "Reset", HG + "InsertFrameEvent", HG + "setRoundLowerBound", HG + "GetAnchorBlockWithFrame",
    "src/node/node.go:Node.fastForward", "src/node/node.go:Node.getBestFastForwardResponse",
    "src/hashgraph/inmem_store.go:InmemStore.Reset", "src/hashgraph/badger_store.go:BadgerStore.Reset",
    "src/hashgraph/block.go:Block.Verify", "src/hashgraph/frame.go:Frame.Hash", "src/peers/peer_set.go:PeerSet.Hash",
    "src/hashgraph/block.go:Block.GetSignatures", "src/hashgraph/block.go:Block.GetSignature", "src/hashgraph/block.go:BlockSignature.*",
    "src/peers/peer.go:*", "src/peers/peer_set.go:NewPeerSet",
]
SIGS = [HG + f for f in ("ProcessSigPool", "SetAnchorBlock", "setAnchorBlock", "removeProcessedSignatures")] + [
    "src/hashgraph/block.go:Block.Sign", "src/hashgraph/block.go:Block.Verify", "src/hashgraph/block.go:Block.SetSignature",
    "src/hashgraph/caches.go:SigPool.*", "src/peers/peer_set.go:PeerSet.TrustCount",
]
DECODE = ["src/common/hex.go:*", "src/crypto/keys/signature.go:*", "src/crypto/keys/public_key.go:*",
          "src/hashgraph/event.go:Event.Verify", "src/hashgraph/internal_transaction.go:*", "src/peers/peer.go:*"]
RPC = ["src/node/node_rpc.go:*", "src/node/node.go:Node.checkSuspend", "src/node/node.go:Node.setBabblingOrCatchingUpState",
       "src/node/state/state.go:*"]
STORE = ["src/hashgraph/inmem_store.go:*", "src/hashgraph/badger_store.go:*", "src/hashgraph/caches.go:ParticipantEventsCache.*",
         "src/common/lru.go:*", "src/common/rolling_index.go:*", "src/common/rolling_index_map.go:*"]
WIRE = ["src/hashgraph/event.go:*", HG + "ReadWireInfo", HG + "SetWireInfo", NC + "toWire", NC + "sync",
        "src/hashgraph/frame.go:*", "src/hashgraph/root.go:*", "src/hashgraph/block.go:BlockBody.*", "src/hashgraph/block.go:Block.Hash",
        "src/hashgraph/block.go:Block.Marshal", "src/hashgraph/block.go:Block.Unmarshal", "src/hashgraph/roundInfo.go:RoundInfo.Marshal",
        "src/hashgraph/roundInfo.go:RoundInfo.Unmarshal", "src/peers/peer_set.go:PeerSet.Hash", "src/peers/peer_set.go:PeerSet.Marshal",
        "src/peers/peer_set.go:PeerSet.Unmarshal", "src/crypto/hash.go:*"]
PROXY = ["src/proxy/socket/app/*.go:*", "src/proxy/socket/babble/*.go:*", "src/proxy/inmem/inmem_proxy.go:*"]
MEMBERSHIP = [NC + "processAcceptedInternalTransactions", NC + "commit", "src/hashgraph/caches.go:PeerSetCache.*",
              "src/peers/peer_set.go:PeerSet.WithNewPeer", "src/peers/peer_set.go:PeerSet.WithRemovedPeer", "src/peers/peer_set.go:NewPeerSet",
              "src/peers/peer_set.go:PeerSet.initMaps", HG + "ProcessDecidedRounds"]

SOURCES = {
    "C01": CORE + ADMISSION[:4] + MEMBERSHIP,
    "C02": CORE + ["src/hashgraph/inmem_store.go:InmemStore.SetBlock", "src/hashgraph/inmem_store.go:InmemStore.GetBlock",
                   "src/hashgraph/inmem_store.go:InmemStore.LastBlockIndex", "src/hashgraph/inmem_store.go:InmemStore.Reset",
                   HG + "Reset", NC + "commit"],
    "C03": CORE,
    "C04": CORE,
    "C05": POOL + SYNC[:2] + ["src/proxy/inmem/inmem_proxy.go:InmemProxy.SubmitTx", "src/node/node.go:Node.addTransaction"],
    "C06": SYNC + POOL + [],
    "C07": ADMISSION + ["src/hashgraph/inmem_store.go:InmemStore.SetEvent", "src/hashgraph/inmem_store.go:InmemStore.addParticipant",
                        "src/hashgraph/caches.go:ParticipantEventsCache.*", "src/common/rolling_index.go:*"],
    "C08": DECODE + RPC[:1] + ADMISSION[:4] + FF[:4] + SIGS[:1] + [NC + "sync"],
    "C09": SIGS + COMMIT,
    "C10": MEMBERSHIP,
    "C11": ADMISSION[:4] + [HG + "Bootstrap", HG + "initEventCoordinates", HG + "updateAncestorFirstDescendant", NC + "bootstrap", NC + "setHeadAndSeq",
            "src/hashgraph/badger_store.go:*"],
    "C12": FF,
    "C13": FF + CORE,
    "C14": FF,
    "C15": WIRE + ["src/common/median.go:*", HG + "GetFrame", HG + "createRoot", "src/hashgraph/caches.go:PeerSetCache.*",
            "src/hashgraph/inmem_store.go:InmemStore.Reset", "src/hashgraph/inmem_store.go:InmemStore.FirstRound",
            "src/peers/peer.go:*", "src/hashgraph/internal_transaction.go:*", "src/hashgraph/block.go:Block.Marshal", "src/hashgraph/block.go:Block.Unmarshal",
            "src/common/hex.go:*", "src/crypto/keys/signature.go:*"],
    "C16": STORE,
    "C17": RPC + ["src/node/node.go:Node.checkSuspend", "src/node/node.go:Node.Suspend"],
    "C18": [HG + "GetFrame", HG + "ProcessDecidedRounds", "src/common/median.go:*", "src/hashgraph/block.go:NewBlockFromFrame", "src/hashgraph/block.go:NewBlock"],
    "C19": ["src/peers/peer_set.go:PeerSet.SuperMajority", "src/peers/peer_set.go:PeerSet.TrustCount", HG + "CheckBlock", HG + "SetAnchorBlock", HG + "ProcessSigPool",
            "src/hashgraph/roundInfo.go:RoundInfo.WitnessesDecided", HG + "_stronglySee", HG + "_round"],
    "C20": PROXY,
}


# Who can write the state a property is about: "writers:<package dir>:<field>" entries of the
# fingerprint tool (functions assigning the field directly, and functions reaching one of them
# through at most three calls, with their distance). A new way of writing the field — a handler
# that starts calling a setter — breaks the tie although no mirrored function changed.
def _w(d, *fields):
    return ["writers:%s:%s" % (d, f) for f in fields]

WRITERS = {
    "C01": _w("src/hashgraph", "round", "roundReceived", "lamportTimestamp", "decided", "Famous", "Witness", "PendingRounds", "LastConsensusRound",
              "lastAncestors", "firstDescendants", "peerSetCache", "roundLowerBound"),
    "C02": _w("src/hashgraph", "lastBlock", "blockCache", "LastConsensusRound", "roundReceived", "StateHash"),
    "C03": _w("src/hashgraph", "round", "roundReceived", "lamportTimestamp", "decided", "Famous", "Witness", "lastAncestors", "firstDescendants",
              "witnessCache", "stronglySeeCache", "ancestorCache", "roundCache", "timestampCache"),
    "C04": _w("src/hashgraph", "roundReceived", "lamportTimestamp", "ReceivedEvents", "LastCommitedRoundEvents"),
    "C05": _w("src/node", "transactionPool", "internalTransactionPool", "selfBlockSignatures", "head", "seq"),
    "C06": _w("src/node", "heads", "head", "seq", "transactionPool") + _w("src/hashgraph", "PendingLoadedEvents", "UndeterminedEvents"),
    "C07": _w("src/hashgraph", "topologicalIndex", "UndeterminedEvents", "PendingLoadedEvents", "participantEventsCache", "eventCache"),
    "C09": _w("src/hashgraph", "AnchorBlock", "PendingSignatures", "Signatures", "items") + _w("src/node", "selfBlockSignatures"),
    "C10": _w("src/hashgraph", "peerSetCache", "peerSets", "firstRounds", "repertoireByPubKey", "repertoireByID") + _w("src/node", "validators", "peers", "lastPeerChangeRound"),
    "C11": _w("src/hashgraph", "topologicalIndex", "firstDescendants", "lastAncestors", "UndeterminedEvents", "maintenanceMode"),
    "C12": _w("src/node", "validators", "peers", "genesisPeers") + _w("src/hashgraph", "AnchorBlock", "roundLowerBound"),
    "C13": _w("src/hashgraph", "roundLowerBound", "roots", "peerSetCache", "firstRounds", "Roots", "PeerSets") + _w("src/node", "validators", "peers"),
    "C14": _w("src/node", "validators", "peers", "genesisPeers"),
    "C16": _w("src/hashgraph", "roots", "lastRound", "lastBlock", "lastConsensusEvents", "totConsensusEvents", "repertoireByPubKey", "repertoireByID"),
    "C17": _w("src/node", "initialUndeterminedEvents", "removedRound", "acceptedRound"),
    "C19": _w("src/peers", "superMajority", "trustCount", "Peers", "ByPubKey", "ByID"),
}
for _p, _l in WRITERS.items():
    SOURCES[_p] = SOURCES[_p] + _l
